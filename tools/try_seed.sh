#!/bin/bash
# usage: try_seed.sh <patch> <property> [tier]   — applies a seeded change to /repo, runs the check, undoes it.
P=$1; ID=$2; TIER=${3:-quick}
cd /repo && git apply --check $P && git apply $P || { echo "PATCH DOES NOT APPLY"; exit 2; }
cd /verif && cp evidence/$ID.json /tmp/evidence_$ID.bak 2>/dev/null
./check.sh $ID $TIER > /tmp/try_$ID.out 2> /tmp/try_$ID.err; rc=$?
cd /repo && git checkout -- . 
cd /verif && cp /tmp/evidence_$ID.bak evidence/$ID.json 2>/dev/null
echo "rc=$rc"; grep -E "VIOLATION|harness=|KNOWN" /tmp/try_$ID.out | cut -c1-220 | head -8; tail -1 /tmp/try_$ID.err | cut -c1-200
