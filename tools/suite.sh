#!/bin/sh
# Runs the pinned test suite of /repo (guard off) and compares with /root/.vp/BASELINE.json stable_pass.
export GOFLAGS=-mod=mod GOPROXY=off GOSUMDB=off
OUT=${1:-/tmp/suite.json}
(cd /repo && go test -mod=mod -json -vet=off -count=1 -timeout 25m ./... > "$OUT" 2>/dev/null)
python3 - "$OUT" <<'PY'
import json,sys
base=json.load(open('/root/.vp/BASELINE.json'))
passed=set()
failed=set()
for line in open(sys.argv[1]):
    try: e=json.loads(line)
    except Exception: continue
    if e.get('Test') and e.get('Action') in('pass','fail'):
        k=e['Package']+'::'+e['Test']
        (passed if e['Action']=='pass' else failed).add(k)
missing=[t for t in base['stable_pass'] if t not in passed]
print('stable_pass:',len(base['stable_pass']),'passed now:',len(passed),'missing:',len(missing))
for t in missing[:30]: print('  MISSING',t)
sys.exit(1 if missing else 0)
PY
