#!/bin/sh
# Runs every claimed check (quick by default) on /repo's current tree and prints a summary.
cd "$(dirname "$0")/.."
TIER=${1:-quick}
for p in $(python3 -c "import json;print(' '.join(c['property_id'] for c in json.load(open('MANIFEST.json'))['checks']))"); do
  s=$(date +%s)
  ./check.sh $p $TIER > /tmp/runall_$p.out 2> /tmp/runall_$p.err
  rc=$?
  e=$(date +%s)
  echo "$p rc=$rc $((e-s))s $(grep -c VIOLATION /tmp/runall_$p.out) violations; $(tail -1 /tmp/runall_$p.err)"
done
