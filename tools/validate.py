#!/usr/bin/env python3
import json, jsonschema, sys, os, glob
root = os.path.dirname(os.path.dirname(os.path.abspath(__file__)))
jsonschema.validate(json.load(open(root+'/MANIFEST.json')), json.load(open('/root/.vp/MANIFEST.schema.json')))
sch = json.load(open('/root/.vp/EVIDENCE.schema.json'))
for f in sorted(glob.glob(root+'/evidence/*.json')):
    jsonschema.validate(json.load(open(f)), sch)
    print('ok', os.path.basename(f))
print('manifest ok')
