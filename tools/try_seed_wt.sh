#!/bin/bash
# usage: try_seed_wt.sh <patch> <property> [tier] [only]
# Like try_seed.sh but leaves /repo alone: the change is applied to a scratch worktree under
# /tmp/seedtry and the check runs against it with its own evidence/replay directory.
P=$(readlink -f $1); ID=$2; TIER=${3:-quick}; ONLY=$4
export GOFLAGS=-mod=mod GOPROXY=off GOSUMDB=off GOTOOLCHAIN=local CGO_ENABLED=0
N=$ID.$$
W=/tmp/seedtry/$N; R=/tmp/seedtry/root.$N
mkdir -p /tmp/seedtry $R/evidence $R/replays
for f in harness nd known_findings.jsonl bin engine; do ln -s /verif/$f $R/$f; done
git -C /repo worktree add --detach $W HEAD >/dev/null 2>&1 || { echo "worktree failed"; exit 2; }
(cd $W && git apply --check $P && git apply $P) || { echo "PATCH DOES NOT APPLY"; git -C /repo worktree remove --force $W; rm -rf $R; exit 2; }
ARGS="-repo $W -prop $ID -tier $TIER"
[ -n "$ONLY" ] && ARGS="$ARGS -only $ONLY"
VERIF_ROOT=$R /verif/bin/gosym run $ARGS > $R/out.txt 2> $R/err.txt; rc=$?
echo "rc=$rc"; grep -E "VIOLATION|harness=|KNOWN" $R/out.txt | sed "s#$R#<scratch>#" | cut -c1-220 | head -8; tail -1 $R/err.txt | cut -c1-200
git -C /repo worktree remove --force $W; rm -rf $R
