#!/bin/sh
# usage: runsome.sh <tier> <ID>...   — runs the listed checks one after another and prints a summary line each
cd "$(dirname "$0")/.."
TIER=$1; shift
for p in "$@"; do
  s=$(date +%s)
  ./check.sh $p $TIER > /tmp/runall_$p.out 2> /tmp/runall_$p.err
  rc=$?
  e=$(date +%s)
  echo "$p rc=$rc $((e-s))s $(grep -c VIOLATION /tmp/runall_$p.out) violations; $(tail -1 /tmp/runall_$p.err)"
done
