#!/bin/bash
# usage: verify_seed.sh <seed-out-dir> <name>
# Confirms a seeded change in a scratch worktree: patch applies, builds, demo passes
# without and fails with the change, the tests of the touched packages still pass.
export GOFLAGS=-mod=mod GOPROXY=off GOSUMDB=off GOTOOLCHAIN=local
OUT=$1; NAME=$2
W=/tmp/seedv/$NAME
rm -rf $W; mkdir -p /tmp/seedv
git -C /repo worktree add --detach $W HEAD >/dev/null 2>&1 || { echo "worktree failed"; exit 2; }
PKG=$(python3 -c "import json;print(json.load(open('$OUT/meta.json'))['demo_package'])")
DEMO=$(ls $OUT/*_test.go | head -1)
cp $DEMO $W/$PKG/zz_seed_demo_test.go
cd $W
echo "== demo WITHOUT change (must pass)"
go test -count=1 -run 'Seed|seed' $PKG 2>&1 | tail -3
A=$?
git apply --check $OUT/patch.diff && git apply $OUT/patch.diff || { echo "PATCH DOES NOT APPLY"; }
echo "== build"; go build ./... 2>&1 | tail -3
echo "== demo WITH change (must fail)"
go test -count=1 -run 'Seed|seed' $PKG 2>&1 | tail -4
echo "== existing tests of touched packages (demo removed)"
rm -f $W/$PKG/zz_seed_demo_test.go
PKGS=$(git diff --name-only | xargs -n1 dirname | sort -u | sed 's#^#./#')
go test -count=1 $PKGS 2>&1 | tail -5
if [ -n "$FULL" ]; then
  echo "== pinned suite with the change (must print missing: 0)"
  go test -mod=mod -json -vet=off -count=1 -timeout 25m ./... > /tmp/seedv/$NAME.suite.json 2>/dev/null
  python3 - /tmp/seedv/$NAME.suite.json <<'PY'
import json,sys
base=json.load(open('/root/.vp/BASELINE.json'))
passed=set()
for line in open(sys.argv[1]):
    try: e=json.loads(line)
    except Exception: continue
    if e.get('Test') and e.get('Action')=='pass':
        passed.add(e['Package']+'::'+e['Test'])
missing=[t for t in base['stable_pass'] if t not in passed]
print('stable_pass:',len(base['stable_pass']),'missing:',len(missing))
for t in missing[:20]: print('  MISSING',t)
PY
  rm -f /tmp/seedv/$NAME.suite.json
fi
cd /; git -C /repo worktree remove --force $W
