#!/usr/bin/env python3
"""Regenerates /verif/MANIFEST.json from tools/checks.json (claimed checks) + properties.jsonl."""
import json, os
root = os.path.dirname(os.path.dirname(os.path.abspath(__file__)))
checks = json.load(open(os.path.join(root, 'tools', 'checks.json')))
props = [json.loads(l)['id'] for l in open(os.path.join(root, 'properties.jsonl'))]
out_checks = []
na = []
for pid in props:
    c = checks.get(pid)
    if not c or c.get('not_applicable'):
        na.append({"property_id": pid, "reason": (c or {}).get('not_applicable', 'check not built yet in this round (technique applies; see DESIGN.md §4)')})
        continue
    out_checks.append({
        "property_id": pid,
        "quick_cmd": f"./check.sh {pid} quick",
        "thorough_cmd": f"./check.sh {pid} thorough",
        "evidence_file": f"evidence/{pid}.json",
        "replay_cmd_template": "VERIF_REPLAY={path} (cd /repo && go test -overlay <generated> -run TestVerifReplay ./<pkg>)  # done automatically by ./check.sh before any VIOLATION line is printed",
        "engine": "gosym",
        "technique": c.get('technique', "bounded symbolic execution of the real Go SSA, assertions discharged by SMT (z3), native replay of counterexamples"),
        "level_claimed": {"category": "model_checking", "text": c['text'], "design_ref": f"DESIGN.md §4 {pid}"},
        "level_note": c['note'],
    })
m = {
    "version": 1,
    "setup_cmd": "./setup.sh",
    "hooks": {
        "guard": "verif",
        "enable": "checks load and build /repo with -tags verif (go/packages BuildFlags and go test -tags verif); the only hook is parse.verifYield, an empty function without the tag, called in collectSpecs (before the claim) and in parseString (inside the guarded region); harnesses and the nd package are injected with overlays, never written into /repo",
        "baseline_off_cmd": "for m in $(cat /w/out/gomods.txt); do MF=$(cd /repo/$m && . /w/out/goenv.sh && gomodflag); (cd /repo/$m && go test $MF -json -vet=off -count=1 -timeout 25m ./...); done",
        "source_commits": ["810c0ad", "ca7d035"],
        "add_only": True,
    },
    "engines": [{"name": "gosym", "path": "engine", "serves_properties": [c["property_id"] for c in out_checks],
                 "kind_free_text": "path-wise symbolic executor for Go SSA (golang.org/x/tools v0.29.0, forked from go/ssa/interp) with symbolic integers/bytes/booleans, emitting SMT-LIB2 bit-vector queries to a long-lived z3; harnesses are in-package Go injected by overlay; counterexamples are replayed natively before being reported"}],
    "checks": out_checks,
    "not_applicable": na,
    "notes": "See DESIGN.md. known_findings.jsonl lists genuine defects recorded (status=known) or repaired by fix: commits (status=fixed).",
}
json.dump(m, open(os.path.join(root, 'MANIFEST.json'), 'w'), indent=1)
print("claimed:", [c["property_id"] for c in out_checks], "n/a:", len(na))
