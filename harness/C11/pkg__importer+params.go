package importer

// C11 — every path-and-method keeps its own parameters: the per-method parameter sets
// built from the path-level parameters (Parameters.Extend, then the request body added
// with Parameters.Add, as the OpenAPI importer's path conversion does) are independent
// of each other and of the path-level set, whatever the slice capacities are.
// Real code executed: Parameters.Add, Parameters.Extend, findParams and its wrappers.

import (
	"github.com/anz-bank/sysl/pkg/zzverif/nd"
)

func c11Param(name, in string) Param {
	return Param{Field: Field{Name: name, Type: &SyslBuiltIn{name: "string"}}, In: in}
}

func c11HasExactly(p Parameters, want []string) bool {
	if len(p.insertOrder) != len(want) || len(p.items) != len(want) {
		return false
	}
	for i, n := range want {
		if p.insertOrder[i] != n {
			return false
		}
		if it, ok := p.items[n]; !ok || it.Name != n {
			return false
		}
	}
	return true
}

func Harness_C11_ParameterSets() {
	k := nd.IntRange("path-level-parameters", 0, 8)
	names := []string{"c0", "c1", "c2", "c3", "c4", "c5", "c6", "c7"}
	var common Parameters
	var commonNames []string
	for i := 0; i < k; i++ {
		common.Add(c11Param(names[i], "path"))
		commonNames = append(commonNames, names[i])
	}
	methods := nd.IntRange("methods", 2, 3)
	bodies := []string{"FooRequest", "BarRequest", "BazRequest"}
	eps := make([]Parameters, methods)
	wants := make([][]string, methods)
	for m := 0; m < methods; m++ {
		var own Parameters
		want := append([]string{}, commonNames...)
		if nd.Bool("method" + string(rune('0'+m)) + "-has-own-parameter") {
			own.Add(c11Param("q"+string(rune('0'+m)), "query"))
			want = append(want, "q"+string(rune('0'+m)))
		}
		eps[m] = common.Extend(own)
		if nd.Bool("method" + string(rune('0'+m)) + "-has-body") {
			eps[m].Add(c11Param(bodies[m], "body"))
			want = append(want, bodies[m])
		}
		wants[m] = want
	}
	nd.Assert("params:path-level-set-unchanged", c11HasExactly(common, commonNames))
	for m := 0; m < methods; m++ {
		nd.Assert("params:method-has-exactly-its-own-parameters", c11HasExactly(eps[m], wants[m]))
		nd.Assert("params:path-parameters-by-location", len(eps[m].PathParams()) == k)
		nb := 0
		for _, n := range wants[m] {
			if n == bodies[m] {
				nb = 1
			}
		}
		bp := eps[m].BodyParams()
		nd.Assert("params:own-body-only", len(bp) == nb && (nb == 0 || bp[0].Name == bodies[m]))
	}
}
