package importer

import (
	"github.com/anz-bank/sysl/pkg/zzverif/nd"
	"github.com/getkin/kin-openapi/openapi3"
)

// a schema's properties become fields; a field is optional iff its name is not in `required`
func Harness_C11_RequiredList() {
	names := []string{"pa", "pb", "pc", "pd"}
	props := openapi3.Schemas{}
	for _, n := range names {
		props[n] = openapi3.NewSchemaRef("", openapi3.NewStringSchema())
	}
	nreq := nd.IntRange("required.len", 0, 4)
	var required []string
	for i := 0; i < nreq; i++ {
		required = append(required, names[nd.IntRange("required"+string(rune('0'+i)), 0, 3)])
	}
	schema := openapi3.NewObjectSchema()
	schema.Properties = props
	schema.Required = required
	o := &OpenAPI3Importer{}
	var t Type
	var err error
	failed, _ := nd.Recovered(func() { t, err = o.loadTypeSchema("T", schema) })
	nd.Assert("schema:no-crash", !failed)
	if failed {
		return
	}
	st, ok := t.(*StandardType)
	nd.Assert("schema:becomes-a-type", err == nil && ok)
	if !ok {
		return
	}
	nd.Assert("schema:one-field-per-property", len(st.Properties) == len(names))
	for _, f := range st.Properties {
		isReq := false
		for _, r := range required {
			if r == f.Name {
				isReq = true
			}
		}
		nd.Assert("schema:optional-iff-not-required", f.Optional == !isReq)
		known := false
		for _, n := range names {
			if n == f.Name {
				known = true
			}
		}
		nd.Assert("schema:field-name-is-a-property", known)
	}
}
