package importer

import (
	"github.com/anz-bank/sysl/pkg/zzverif/nd"
	"github.com/getkin/kin-openapi/openapi3"
	"github.com/sirupsen/logrus"
)

// a schema's properties become fields; a field is optional iff its name is not in `required`
func Harness_C11_RequiredList() {
	names := []string{"pa", "pb", "pc", "pd"}
	props := openapi3.Schemas{}
	for _, n := range names {
		props[n] = openapi3.NewSchemaRef("", openapi3.NewStringSchema())
	}
	nreq := nd.IntRange("required.len", 0, 4)
	var required []string
	for i := 0; i < nreq; i++ {
		required = append(required, names[nd.IntRange("required"+string(rune('0'+i)), 0, 3)])
	}
	schema := openapi3.NewObjectSchema()
	schema.Properties = props
	schema.Required = required
	o := &OpenAPI3Importer{}
	var t Type
	var err error
	failed, _ := nd.Recovered(func() { t, err = o.loadTypeSchema("T", schema) })
	nd.Assert("schema:no-crash", !failed)
	if failed {
		return
	}
	st, ok := t.(*StandardType)
	nd.Assert("schema:becomes-a-type", err == nil && ok)
	if !ok {
		return
	}
	nd.Assert("schema:one-field-per-property", len(st.Properties) == len(names))
	for _, f := range st.Properties {
		isReq := false
		for _, r := range required {
			if r == f.Name {
				isReq = true
			}
		}
		nd.Assert("schema:optional-iff-not-required", f.Optional == !isReq)
		known := false
		for _, n := range names {
			if n == f.Name {
				known = true
			}
		}
		nd.Assert("schema:field-name-is-a-property", known)
	}
}

// the primitive kind of a foreign (type, format) pair: for string / integer / number with
// ANY format string the result is a Sysl primitive of that family — an unknown format falls
// back to the plain kind, it never leaks the foreign type name into the output
//
//verif:shard-quick 8 4
//verif:shard-thorough 16 5
func Harness_C11_TypeAndFormat() {
	L := 4
	if nd.Thorough() {
		L = 6
	}
	kind := nd.IntRange("type", 0, 2)
	typ := []string{"string", "integer", "number"}[kind]
	if nd.Bool("type-in-capitals") {
		typ = []string{"String", "INTEGER", "Number"}[kind]
	}
	format := nd.String("format", L)
	for i := 0; i < len(format); i++ {
		nd.Assume(format[i] >= 0x20 && format[i] < 0x7f)
	}
	got := mapOpenAPITypeAndFormatToType(typ, format, logrus.New())
	var family []string
	switch kind {
	case 0:
		family = []string{"string", "date", "datetime", "bytes", "uuid"}
	case 1:
		family = []string{"int", "int32", "int64"}
	default:
		family = []string{"float"}
	}
	ok := false
	for _, f := range family {
		if got == f {
			ok = true
		}
	}
	nd.Assert("format:any-format-gives-a-primitive-of-the-family", ok)
	if len(format) == 0 {
		nd.Assert("format:no-format-gives-the-plain-kind", got == family[0])
	}
}
