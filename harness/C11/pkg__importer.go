package importer

// C11 — importers emit valid Sysl that contains everything the foreign spec defines.
// Real code executed: escapeUnsafeSyslChars, getSyslSafeName, getSyslSafeURI, quote,
// convertToSyslSafe, cleanEndpointPath (with net/url escaping, strings.* and regexp from SSA).

import (
	"net/url"

	"github.com/anz-bank/sysl/pkg/zzverif/nd"
)

func c11Hex(c byte) bool {
	return c >= '0' && c <= '9' || c >= 'a' && c <= 'f' || c >= 'A' && c <= 'F'
}

// c11IsName: recogniser for the lexer's Name token (SyslLexer.g4):
// ('%'HEX HEX)* [a-zA-Z_] ( [-a-zA-Z0-9_] | '%'HEX HEX )*
func c11IsName(s string) bool {
	i := 0
	for i+2 < len(s) && s[i] == '%' && c11Hex(s[i+1]) && c11Hex(s[i+2]) {
		i += 3
	}
	if i >= len(s) {
		return false
	}
	c := s[i]
	if !(c >= 'a' && c <= 'z' || c >= 'A' && c <= 'Z' || c == '_') {
		return false
	}
	i++
	for i < len(s) {
		c := s[i]
		switch {
		case c >= 'a' && c <= 'z' || c >= 'A' && c <= 'Z' || c >= '0' && c <= '9' || c == '_' || c == '-':
			i++
		case c == '%' && i+2 < len(s) && c11Hex(s[i+1]) && c11Hex(s[i+2]):
			i += 3
		default:
			return false
		}
	}
	return true
}

// every foreign name becomes a Sysl Name token that decodes back to it
//
//verif:shard-quick 16 6
//verif:shard-thorough 16 8
func Harness_C11_SafeName() {
	L := 2
	if nd.Thorough() {
		L = 3
	}
	n := nd.String("name", L)
	nd.Assume(len(n) > 0)
	out := getSyslSafeName(n)
	nd.Assert("name:is-a-sysl-name-token", c11IsName(out))
	back, err := url.PathUnescape(out)
	nd.Assert("name:decodes", err == nil)
	nd.Assert("name:round-trips", back == n || back == "_"+n)
}

// c11IsQString: recogniser for the double-quoted form of the lexer's QSTRING token:
// '"' ( ~["\\] | '\\' [\\brntu'"] )* '"'
func c11IsQString(s string) bool {
	if len(s) < 2 || s[0] != '"' || s[len(s)-1] != '"' {
		return false
	}
	for i := 1; i < len(s)-1; i++ {
		switch s[i] {
		case '"':
			return false
		case '\\':
			i++
			if i >= len(s)-1 {
				return false
			}
			switch s[i] {
			case '\\', 'b', 'r', 'n', 't', 'u', '\'', '"':
			default:
				return false
			}
		}
	}
	return true
}

// c11Unquote: reference decoding of a QSTRING body (the inverse the compiler applies)
func c11Unquote(s string) string {
	out := ""
	for i := 1; i < len(s)-1; i++ {
		if s[i] == '\\' && i+1 < len(s)-1 {
			i++
			switch s[i] {
			case 'n':
				out += "\n"
			case 't':
				out += "\t"
			case 'r':
				out += "\r"
			case 'b':
				out += "\b"
			default:
				out += s[i : i+1]
			}
			continue
		}
		out += s[i : i+1]
	}
	return out
}

// quoted attribute values, titles and json tags are QSTRING tokens that decode back
func Harness_C11_Quote() {
	L := 3
	if nd.Thorough() {
		L = 4
	}
	s := nd.String("text", L)
	nd.Assume(len(s) > 0)
	q := quote(s)
	nd.Assert("quote:is-a-qstring-token", c11IsQString(q))
	if c11IsQString(q) {
		nd.Assert("quote:round-trips", c11Unquote(q) == s)
	}
}
