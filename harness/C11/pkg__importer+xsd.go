//go:build verif

// C11 (XSD) — every complex type of a schema becomes a type carrying every property it
// defines or inherits — elements and attributes, with the right optionality — whatever
// mix of extension kind, own elements and own attributes it is built from.
// Real code executed: (*XSDImporter).Load — aqwari.net/xml/xsd parsing and flattening,
// loadSchemaTypes, makeComplexType/makeExtendedType/isExtendedType, the Sysl writer.
package importer

import (
	"strings"

	"github.com/anz-bank/sysl/pkg/zzverif/nd"
	"github.com/sirupsen/logrus"
)

// c11Block returns the lines of the "!type name:" / "!alias name:" declaration in out.
func c11Block(out, name string) (lines []string, kind string) {
	all := strings.Split(out, "\n")
	for i, l := range all {
		t := strings.TrimSpace(l)
		if t == "!type "+name+":" || strings.HasPrefix(t, "!alias "+name+":") {
			kind = "type"
			if t[1] == 'a' {
				kind = "alias"
			}
			for _, m := range all[i+1:] {
				if strings.TrimSpace(m) == "" {
					break
				}
				lines = append(lines, m)
			}
			return
		}
	}
	return nil, ""
}

// c11FieldLine finds "name <: type" among the lines of a declaration.
func c11FieldLine(lines []string, name string) (typ string, found bool) {
	for _, l := range lines {
		t := strings.TrimSpace(l)
		if strings.HasPrefix(t, name+" <: ") {
			rest := t[len(name)+4:]
			if i := strings.IndexAny(rest, " :"); i >= 0 {
				rest = rest[:i]
			}
			return rest, true
		}
	}
	return "", false
}

//verif:shard-quick 16 4
//verif:shard-thorough 16 5
func Harness_C11_XSDExtensions() {
	content := nd.IntRange("derived-by", 0, 2) // 0 complexContent extension of Base, 1 simpleContent extension of xs:string, 2 no derivation
	nAttr := nd.IntRange("own-attributes", 0, 2)
	nElem := 0
	if content != 1 {
		nElem = nd.IntRange("own-elements", 0, 1)
	}
	attrReq := []bool{nd.Bool("attribute0-required"), nd.Bool("attribute1-required")}
	elemOpt := nd.Bool("element-optional")
	baseOpt := nd.Bool("base-element-optional")

	occurs := func(opt bool) string {
		if opt {
			return ` minOccurs="0"`
		}
		return ""
	}
	attrs := ""
	attrNames := []string{"code", "rank"}
	attrTypes := []string{"xs:string", "xs:integer"}
	for i := 0; i < nAttr; i++ {
		use := ""
		if attrReq[i] {
			use = ` use="required"`
		}
		attrs += `<xs:attribute name="` + attrNames[i] + `" type="` + attrTypes[i] + `"` + use + "/>\n"
	}
	elems := ""
	if nElem > 0 {
		elems = `<xs:sequence><xs:element name="detail" type="xs:string"` + occurs(elemOpt) + "/></xs:sequence>\n"
	}
	var derived string
	switch content {
	case 0:
		derived = "<xs:complexContent><xs:extension base=\"Base\">\n" + elems + attrs + "</xs:extension></xs:complexContent>\n"
	case 1:
		derived = "<xs:simpleContent><xs:extension base=\"xs:string\">\n" + attrs + "</xs:extension></xs:simpleContent>\n"
	default:
		derived = elems + attrs
	}
	// a second complex type whose name differs from Base only in letter case
	twin := nd.Bool("type-named-base-in-lower-case")
	twinDoc := ""
	if twin {
		twinDoc = `<xs:complexType name="base"><xs:sequence><xs:element name="other" type="xs:integer"/></xs:sequence></xs:complexType>` + "\n"
	}
	// the base type may have an optional element of its own type (a list node, a tree)
	selfRef := nd.Bool("base-type-refers-to-itself")
	selfDoc := ""
	if selfRef {
		selfDoc = `<xs:element name="next" type="Base" minOccurs="0"/>` + "\n"
	}
	doc := `<?xml version="1.0"?>
<xs:schema xmlns:xs="http://www.w3.org/2001/XMLSchema">
<xs:complexType name="Base"><xs:sequence>
<xs:element name="id" type="xs:string"/>
<xs:element name="note" type="xs:string"` + occurs(baseOpt) + `/>
` + selfDoc + `</xs:sequence></xs:complexType>
<xs:complexType name="Derived">
` + derived + `</xs:complexType>
` + twinDoc + `</xs:schema>
`
	logger := logrus.New()
	imp := MakeXSDImporter(logger)
	imp.appName = "A"
	var out string
	var err error
	crashed, msg := nd.Recovered(func() { out, err = imp.Load(doc) })
	nd.Note(msg)
	nd.Assert("xsd:no-crash", !crashed)
	if crashed {
		return
	}
	nd.Assert("xsd:imports", err == nil)
	if err != nil {
		return
	}
	base, bk := c11Block(out, "Base")
	nd.Assert("xsd:base-type-declared", bk == "type")
	typ, ok := c11FieldLine(base, "id")
	nd.Assert("xsd:base-required-element", ok && typ == "string")
	typ, ok = c11FieldLine(base, "note")
	nd.Assert("xsd:base-element-optional-iff-minOccurs-0", ok && (typ == "string?") == baseOpt && (typ == "string") == !baseOpt)

	if twin {
		tw, tk := c11Block(out, "base")
		typ, ok := c11FieldLine(tw, "other")
		nd.Assert("xsd:types-differing-only-in-case-are-both-declared", tk == "type" && ok && typ == "int")
		_, leaked := c11FieldLine(base, "other")
		nd.Assert("xsd:types-differing-only-in-case-stay-apart", !leaked)
	}
	if selfRef {
		typ, ok := c11FieldLine(base, "next")
		nd.Assert("xsd:self-referential-type", ok && typ == "Base?")
	}
	der, dk := c11Block(out, "Derived")
	nd.Assert("xsd:derived-type-declared", dk != "")
	own := nAttr + nElem
	if own == 0 && content == 2 {
		return // an empty complex type: nothing to carry
	}
	if own > 0 || content == 0 {
		// it has properties of its own or inherited ones: they must all be there
		for i := 0; i < nAttr; i++ {
			typ, ok := c11FieldLine(der, attrNames[i])
			want := []string{"string", "int"}[i]
			if !attrReq[i] {
				want += "?"
			}
			nd.Assert("xsd:own-attribute-is-a-field", ok && typ == want)
		}
		if nElem > 0 {
			typ, ok := c11FieldLine(der, "detail")
			nd.Assert("xsd:own-element-is-a-field", ok && (typ == "string?") == elemOpt && (typ == "string") == !elemOpt)
		}
		if content == 0 && (own > 0 || dk == "type") {
			_, ok1 := c11FieldLine(der, "id")
			_, ok2 := c11FieldLine(der, "note")
			nd.Assert("xsd:inherited-elements-are-fields", ok1 && ok2)
		}
		if content == 0 && own == 0 {
			// nothing added: an alias of the base is as good as a copy of its fields
			nd.Assert("xsd:pure-extension-is-base-or-copy", dk == "type" || strings.Contains(out, "!alias Derived:"))
		}
	}
}
