package eval

// C10 — view evaluation follows the expression semantics and is pure.
// Real code executed: (*exprEval).eval, evalBinExpr and the three strategies, the
// operator tables and every function in them that the harnesses reach, evalTransform*,
// setAppender/listAppender, evalCall, evalName, evalGetAttr, evalIfelse, evalSet,
// evalList, unaryNeg, the Value constructors.

import (
	"io"

	sysl "github.com/anz-bank/sysl/pkg/sysl"
	"github.com/anz-bank/sysl/pkg/zzverif/nd"
	"github.com/sirupsen/logrus"
)

func c10EE() *exprEval {
	// natively the evaluator needs a logger; under the executor logrus is a no-op
	logger := logrus.New()
	if logger != nil {
		logger.SetOutput(io.Discard)
	}
	return &exprEval{txApp: &sysl.Application{Views: map[string]*sysl.View{}}, exprStack: exprStack{}, logger: logger}
}

func c10Lit(v *sysl.Value) *sysl.Expr  { return &sysl.Expr{Expr: &sysl.Expr_Literal{Literal: v}} }
func c10Int(i int64) *sysl.Expr        { return c10Lit(MakeValueI64(i)) }
func c10Str(s string) *sysl.Expr       { return c10Lit(MakeValueString(s)) }
func c10Bool(b bool) *sysl.Expr        { return c10Lit(MakeValueBool(b)) }
func c10Name(n string) *sysl.Expr      { return &sysl.Expr{Expr: &sysl.Expr_Name{Name: n}} }
func c10Bin(op sysl.Expr_BinExpr_Op, l, r *sysl.Expr) *sysl.Expr {
	return &sysl.Expr{Expr: &sysl.Expr_Binexpr{Binexpr: &sysl.Expr_BinExpr{Op: op, Lhs: l, Rhs: r}}}
}
func c10BinScoped(op sysl.Expr_BinExpr_Op, l, r *sysl.Expr, scopevar string) *sysl.Expr {
	return &sysl.Expr{Expr: &sysl.Expr_Binexpr{Binexpr: &sysl.Expr_BinExpr{Op: op, Lhs: l, Rhs: r, Scopevar: scopevar}}}
}
func c10List(es ...*sysl.Expr) *sysl.Expr {
	return &sysl.Expr{Expr: &sysl.Expr_List_{List: &sysl.Expr_List{Expr: es}}}
}
func c10Set(es ...*sysl.Expr) *sysl.Expr {
	return &sysl.Expr{Expr: &sysl.Expr_Set{Set: &sysl.Expr_List{Expr: es}}}
}

// c10Eval evaluates e; ok=false when evaluation failed (the evaluator reports
// failure by exiting the process after recovering the panic).
func c10Eval(ee *exprEval, scope Scope, e *sysl.Expr) (res *sysl.Value, ok bool) {
	failed, _ := nd.Recovered(func() { res = Eval(ee, scope, e) })
	return res, !failed
}

// ---- integer operators: reference = Go's int64 arithmetic ----
func Harness_C10_IntOps() {
	a := nd.Int("a", 64)
	b := nd.Int("b", 64)
	ops := []sysl.Expr_BinExpr_Op{sysl.Expr_BinExpr_ADD, sysl.Expr_BinExpr_SUB, sysl.Expr_BinExpr_MUL,
		sysl.Expr_BinExpr_DIV, sysl.Expr_BinExpr_MOD, sysl.Expr_BinExpr_EQ, sysl.Expr_BinExpr_NE,
		sysl.Expr_BinExpr_LT, sysl.Expr_BinExpr_LE, sysl.Expr_BinExpr_GT, sysl.Expr_BinExpr_GE}
	op := ops[nd.IntRange("op", 0, len(ops)-1)]
	if op == sysl.Expr_BinExpr_DIV || op == sysl.Expr_BinExpr_MOD {
		nd.Assume(b != 0) // division by zero is not defined by the statement
	}
	res, ok := c10Eval(c10EE(), Scope{}, c10Bin(op, c10Int(a), c10Int(b)))
	nd.Assert("int:evaluates", ok && res != nil)
	if !ok || res == nil {
		return
	}
	switch op {
	case sysl.Expr_BinExpr_ADD:
		nd.Assert("int:add", getValueType(res) == ValueInt && res.GetI() == a+b)
	case sysl.Expr_BinExpr_SUB:
		nd.Assert("int:sub", getValueType(res) == ValueInt && res.GetI() == a-b)
	case sysl.Expr_BinExpr_MUL:
		nd.Assert("int:mul", getValueType(res) == ValueInt && res.GetI() == a*b)
	case sysl.Expr_BinExpr_DIV:
		nd.Assert("int:div", getValueType(res) == ValueInt && res.GetI() == a/b)
	case sysl.Expr_BinExpr_MOD:
		nd.Assert("int:mod", getValueType(res) == ValueInt && res.GetI() == a%b)
	case sysl.Expr_BinExpr_EQ:
		nd.Assert("int:eq", getValueType(res) == ValueBool && res.GetB() == (a == b))
	case sysl.Expr_BinExpr_NE:
		nd.Assert("int:ne", getValueType(res) == ValueBool && res.GetB() == (a != b))
	case sysl.Expr_BinExpr_LT:
		nd.Assert("int:lt", getValueType(res) == ValueBool && res.GetB() == (a < b))
	case sysl.Expr_BinExpr_LE:
		nd.Assert("int:le", getValueType(res) == ValueBool && res.GetB() == (a <= b))
	case sysl.Expr_BinExpr_GT:
		nd.Assert("int:gt", getValueType(res) == ValueBool && res.GetB() == (a > b))
	case sysl.Expr_BinExpr_GE:
		nd.Assert("int:ge", getValueType(res) == ValueBool && res.GetB() == (a >= b))
	}
}

func Harness_C10_StringBoolOps() {
	s := nd.String("s", 2)
	t := nd.String("t", 2)
	ee := c10EE()
	res, ok := c10Eval(ee, Scope{}, c10Bin(sysl.Expr_BinExpr_ADD, c10Str(s), c10Str(t)))
	nd.Assert("string:concat", ok && getValueType(res) == ValueString && res.GetS() == s+t)
	res, ok = c10Eval(ee, Scope{}, c10Bin(sysl.Expr_BinExpr_EQ, c10Str(s), c10Str(t)))
	nd.Assert("string:eq", ok && getValueType(res) == ValueBool && res.GetB() == (s == t))
	res, ok = c10Eval(ee, Scope{}, c10Bin(sysl.Expr_BinExpr_NE, c10Str(s), c10Str(t)))
	nd.Assert("string:ne", ok && getValueType(res) == ValueBool && res.GetB() == (s != t))
	p := nd.Bool("p")
	q := nd.Bool("q")
	res, ok = c10Eval(ee, Scope{}, c10Bin(sysl.Expr_BinExpr_AND, c10Bool(p), c10Bool(q)))
	nd.Assert("bool:and", ok && getValueType(res) == ValueBool && res.GetB() == (p && q))
	res, ok = c10Eval(ee, Scope{}, c10Bin(sysl.Expr_BinExpr_EQ, c10Bool(p), c10Bool(q)))
	nd.Assert("bool:eq", ok && getValueType(res) == ValueBool && res.GetB() == (p == q))
	res, ok = c10Eval(ee, Scope{}, &sysl.Expr{Expr: &sysl.Expr_Unexpr{Unexpr: &sysl.Expr_UnExpr{Op: sysl.Expr_UnExpr_NEG, Arg: c10Bool(p)}}})
	nd.Assert("bool:not", ok && getValueType(res) == ValueBool && res.GetB() == !p)
	// conditional
	res, ok = c10Eval(ee, Scope{}, &sysl.Expr{Expr: &sysl.Expr_Ifelse{Ifelse: &sysl.Expr_IfElse{Cond: c10Bool(p), IfTrue: c10Str(s), IfFalse: c10Str(t)}}})
	if p {
		nd.Assert("ifelse:true-branch", ok && res.GetS() == s)
	} else {
		nd.Assert("ifelse:false-branch", ok && res.GetS() == t)
	}
}

// membership in lists and sets of strings
func Harness_C10_Membership() {
	x := nd.String("x", 1)
	e0 := nd.String("e0", 1)
	e1 := nd.String("e1", 1)
	ee := c10EE()
	want := x == e0 || x == e1
	res, ok := c10Eval(ee, Scope{}, c10Bin(sysl.Expr_BinExpr_IN, c10Str(x), c10List(c10Str(e0), c10Str(e1))))
	nd.Assert("in:list", ok && res.GetB() == want)
	res, ok = c10Eval(ee, Scope{}, c10Bin(sysl.Expr_BinExpr_NOT_IN, c10Str(x), c10List(c10Str(e0), c10Str(e1))))
	nd.Assert("not-in:list", ok && res.GetB() == !want)
	res, ok = c10Eval(ee, Scope{}, c10Bin(sysl.Expr_BinExpr_IN, c10Str(x), c10Set(c10Str(e0), c10Str(e1))))
	nd.Assert("in:set", ok && res.GetB() == want)
	res, ok = c10Eval(ee, Scope{}, c10Bin(sysl.Expr_BinExpr_NOT_IN, c10Str(x), c10Set(c10Str(e0), c10Str(e1))))
	nd.Assert("not-in:set", ok && res.GetB() == !want)
}

func c10Count(ee *exprEval, scope Scope, arg *sysl.Expr) (int64, bool) {
	res, ok := c10Eval(ee, scope, &sysl.Expr{Expr: &sysl.Expr_Call_{Call: &sysl.Expr_Call{Func: ".count", Arg: []*sysl.Expr{arg}}}})
	if !ok || res == nil {
		return 0, false
	}
	return res.GetI(), true
}

// set union of integer sets: no duplicates, exactly the members of either operand.
// Either operand may be empty, and a set literal may name an element twice.
func Harness_C10_SetUnionInt() {
	nl := nd.IntRange("left-size", 0, 2)
	nr := nd.IntRange("right-size", 0, 2)
	var all []int64
	var le, re []*sysl.Expr
	for i := 0; i < nl; i++ {
		v := nd.Int("l"+string(rune('0'+i)), 8)
		all = append(all, v)
		le = append(le, c10Int(v))
	}
	for i := 0; i < nr; i++ {
		v := nd.Int("r"+string(rune('0'+i)), 8)
		all = append(all, v)
		re = append(re, c10Int(v))
	}
	ee := c10EE()
	res, ok := c10Eval(ee, Scope{}, c10Bin(sysl.Expr_BinExpr_BITOR, c10Set(le...), c10Set(re...)))
	nd.Assert("union:evaluates", ok && res != nil && res.GetSet() != nil)
	if !ok || res == nil || res.GetSet() == nil {
		return
	}
	vs := res.GetSet().Value
	wantLen := 0
	for i, v := range all {
		first := true
		for j := 0; j < i; j++ {
			if all[j] == v {
				first = false
			}
		}
		if first {
			wantLen++
		}
	}
	nd.Assert("union:size", len(vs) == wantLen)
	for i, v := range vs {
		member := false
		for _, w := range all {
			if v.GetI() == w {
				member = true
			}
		}
		nd.Assert("union:member-of-an-operand", member)
		for j := 0; j < i; j++ {
			nd.Assert("union:no-duplicates", vs[j].GetI() != v.GetI())
		}
	}
	for _, w := range all {
		has := false
		for _, v := range vs {
			if v.GetI() == w {
				has = true
			}
		}
		nd.Assert("union:complete", has)
	}
}

func Harness_C10_SetUnionString() {
	nl := nd.IntRange("left-size", 0, 2)
	nr := nd.IntRange("right-size", 0, 2)
	var all []string
	var le, re []*sysl.Expr
	for i := 0; i < nl; i++ {
		v := nd.String("l"+string(rune('0'+i)), 1)
		all = append(all, v)
		le = append(le, c10Str(v))
	}
	for i := 0; i < nr; i++ {
		v := nd.String("r"+string(rune('0'+i)), 1)
		all = append(all, v)
		re = append(re, c10Str(v))
	}
	ee := c10EE()
	res, ok := c10Eval(ee, Scope{}, c10Bin(sysl.Expr_BinExpr_BITOR, c10Set(le...), c10Set(re...)))
	nd.Assert("union:evaluates", ok && res != nil && res.GetSet() != nil)
	if !ok || res == nil || res.GetSet() == nil {
		return
	}
	vs := res.GetSet().Value
	wantLen := 0
	for i, v := range all {
		first := true
		for j := 0; j < i; j++ {
			if all[j] == v {
				first = false
			}
		}
		if first {
			wantLen++
		}
	}
	nd.Assert("union:size", len(vs) == wantLen)
	for i, v := range vs {
		member := false
		for _, w := range all {
			if v.GetS() == w {
				member = true
			}
		}
		nd.Assert("union:member-of-an-operand", member)
		for j := 0; j < i; j++ {
			nd.Assert("union:no-duplicates", vs[j].GetS() != v.GetS())
		}
	}
}

// list concatenation, and purity of let-bound operands used twice
func Harness_C10_ConcatPurity() {
	n := nd.IntRange("n", 0, 4)
	x := nd.Int("x", 16)
	y := nd.Int("y", 16)
	ee := c10EE()
	// a is built the way the evaluator builds every list: element by element
	var elems []*sysl.Expr
	for i := 0; i < n; i++ {
		elems = append(elems, c10Int(int64(10+i)))
	}
	scope := Scope{}
	a, ok := c10Eval(ee, scope, c10List(elems...))
	nd.Assert("concat:operand-evaluates", ok)
	scope["a"] = a
	b, ok1 := c10Eval(ee, scope, c10Bin(sysl.Expr_BinExpr_BITOR, c10Name("a"), c10List(c10Int(x))))
	scope["b"] = b
	c, ok2 := c10Eval(ee, scope, c10Bin(sysl.Expr_BinExpr_BITOR, c10Name("a"), c10List(c10Int(y))))
	nd.Assert("concat:evaluates", ok1 && ok2 && b.GetList() != nil && c.GetList() != nil)
	if !(ok1 && ok2) || b.GetList() == nil || c.GetList() == nil {
		return
	}
	nd.Assert("concat:length", len(b.GetList().Value) == n+1 && len(c.GetList().Value) == n+1)
	nd.Assert("concat:operand-unchanged", len(scope["a"].GetList().Value) == n)
	for i := 0; i < n; i++ {
		nd.Assert("concat:prefix", b.GetList().Value[i].GetI() == int64(10+i) && c.GetList().Value[i].GetI() == int64(10+i))
		nd.Assert("concat:operand-unchanged", scope["a"].GetList().Value[i].GetI() == int64(10+i))
	}
	if len(b.GetList().Value) == n+1 && len(c.GetList().Value) == n+1 {
		nd.Assert("concat:second-use-does-not-corrupt-first", b.GetList().Value[n].GetI() == x)
		nd.Assert("concat:last", c.GetList().Value[n].GetI() == y)
	}
}

// where: filter semantics over sets (of integers) and lists (of strings — the
// operator table has no entry for lists of integers), and the scope is left as it was
func Harness_C10_Where() {
	useSet := nd.Bool("set")
	prebound := nd.Bool("scopevar-already-bound")
	ee := c10EE()
	scope := Scope{"keep": MakeValueI64(77)}
	if prebound {
		scope["x"] = MakeValueString("outer")
	}
	var res *sysl.Value
	var ok bool
	var keep []bool
	if useSet {
		k := nd.Int("k", 8)
		e0 := nd.Int("e0", 8)
		e1 := nd.Int("e1", 8)
		e2 := nd.Int("e2", 8)
		nd.Assume(e0 != e1 && e1 != e2 && e0 != e2)
		coll := c10Set(c10Int(e0), c10Int(e1), c10Int(e2))
		pred := c10Bin(sysl.Expr_BinExpr_GT, c10Name("x"), c10Int(k))
		res, ok = c10Eval(ee, scope, c10BinScoped(sysl.Expr_BinExpr_WHERE, coll, pred, "x"))
		keep = []bool{e0 > k, e1 > k, e2 > k}
		nd.Assert("where:evaluates", ok && res != nil && res.GetSet() != nil)
		if ok && res != nil && res.GetSet() != nil {
			got := res.GetSet().Value
			j := 0
			for i, e := range []int64{e0, e1, e2} {
				if keep[i] {
					nd.Assert("where:kept-elements-in-order", j < len(got) && got[j].GetI() == e)
					j++
				}
			}
			nd.Assert("where:count", len(got) == j)
		}
	} else {
		k := nd.String("k", 1)
		e0 := nd.String("e0", 1)
		e1 := nd.String("e1", 1)
		coll := c10List(c10Str(e0), c10Str(e1))
		pred := c10Bin(sysl.Expr_BinExpr_NE, c10Name("x"), c10Str(k))
		res, ok = c10Eval(ee, scope, c10BinScoped(sysl.Expr_BinExpr_WHERE, coll, pred, "x"))
		nd.Assert("where:evaluates", ok && res != nil && res.GetList() != nil)
		if ok && res != nil && res.GetList() != nil {
			got := res.GetList().Value
			j := 0
			for _, e := range []string{e0, e1} {
				if e != k {
					nd.Assert("where:kept-elements-in-order", j < len(got) && got[j].GetS() == e)
					j++
				}
			}
			nd.Assert("where:count", len(got) == j)
		}
	}
	// purity
	nd.Assert("where:other-binding-kept", scope["keep"] != nil && scope["keep"].GetI() == 77)
	if prebound {
		v, has := scope["x"]
		nd.Assert("where:outer-binding-of-scope-variable-restored", has && v.GetS() == "outer")
		nd.Assert("where:no-new-binding", len(scope) == 2)
	} else {
		_, has := scope["x"]
		nd.Assert("where:scope-variable-not-leaked", !has)
		nd.Assert("where:no-new-binding", len(scope) == 1)
	}
}

func c10Transform(arg *sysl.Expr, scopevar string, retSet bool, body *sysl.Expr) *sysl.Expr {
	t := &sysl.Type{Type: &sysl.Type_List_{List: &sysl.Type_List{}}}
	if retSet {
		t = &sysl.Type{Type: &sysl.Type_Set{Set: &sysl.Type{}}}
	}
	return &sysl.Expr{
		Type: t,
		Expr: &sysl.Expr_Transform_{Transform: &sysl.Expr_Transform{
			Arg: arg, Scopevar: scopevar,
			Stmt: []*sysl.Expr_Transform_Stmt{{Stmt: &sysl.Expr_Transform_Stmt_Assign_{Assign: &sysl.Expr_Transform_Stmt_Assign{Name: "out", Expr: body}}}},
		}},
	}
}

// transforms over lists and sets: one result per element (list), no two equal
// results (set); the scope is left as it was
func Harness_C10_Transform() {
	e0 := nd.Int("e0", 8)
	e1 := nd.Int("e1", 8)
	m := nd.Int("m", 8)
	nd.Assume(m != 0)
	retSet := nd.Bool("result-is-set")
	argSet := nd.Bool("argument-is-set")
	ee := c10EE()
	scope := Scope{"keep": MakeValueI64(5), "m": MakeValueI64(m)}
	var coll *sysl.Expr
	if argSet {
		nd.Assume(e0 != e1)
		coll = c10Set(c10Int(e0), c10Int(e1))
	} else {
		coll = c10List(c10Int(e0), c10Int(e1))
	}
	// body: out = x % m   (distinct elements may map to equal results)
	body := c10Bin(sysl.Expr_BinExpr_MOD, c10Name("x"), c10Name("m"))
	res, ok := c10Eval(ee, scope, c10Transform(coll, "x", retSet, body))
	nd.Assert("transform:evaluates", ok && res != nil)
	if !ok || res == nil {
		return
	}
	got := GetValueSlice(res)
	r0, r1 := e0%m, e1%m
	if retSet {
		nd.Assert("transform:set-kind", res.GetSet() != nil)
		if r0 == r1 {
			nd.Assert("transform:set-has-no-duplicates", len(got) == 1)
		} else {
			nd.Assert("transform:set-keeps-distinct-results", len(got) == 2)
		}
	} else {
		nd.Assert("transform:list-kind", res.GetList() != nil)
		nd.Assert("transform:one-result-per-element", len(got) == 2)
	}
	if len(got) >= 1 {
		v := got[0].GetMap().Items["out"]
		nd.Assert("transform:first-result", v != nil && v.GetI() == r0)
	}
	if len(got) == 2 {
		v := got[1].GetMap().Items["out"]
		nd.Assert("transform:second-result", v != nil && v.GetI() == r1)
	}
	nd.Assert("transform:other-bindings-kept", scope["keep"].GetI() == 5 && scope["m"].GetI() == m)
	_, has := scope["x"]
	nd.Assert("transform:scope-variable-not-leaked", !has && len(scope) == 2)
}

// count, attribute access and calls to other views
func Harness_C10_CountAttrCall() {
	n := nd.IntRange("n", 0, 3)
	asSet := nd.Bool("set")
	ee := c10EE()
	var elems []*sysl.Expr
	for i := 0; i < n; i++ {
		elems = append(elems, c10Int(int64(i)))
	}
	coll := c10List(elems...)
	if asSet {
		coll = c10Set(elems...)
	}
	cnt, ok := c10Count(ee, Scope{}, coll)
	nd.Assert("count", ok && cnt == int64(n))

	// attribute access on a map value
	v := nd.Int("v", 16)
	mv := MakeValueMap()
	AddItemToValueMap(mv, "f", MakeValueI64(v))
	AddItemToValueMap(mv, "g", MakeValueString("gg"))
	scope := Scope{"rec": mv}
	res, ok := c10Eval(ee, scope, &sysl.Expr{Expr: &sysl.Expr_GetAttr_{GetAttr: &sysl.Expr_GetAttr{Arg: c10Name("rec"), Attr: "f"}}})
	nd.Assert("getattr", ok && res != nil && res.GetI() == v)

	// call of another view: double(p) = p + p
	ee.txApp.Views["double"] = &sysl.View{
		Param:   []*sysl.Param{{Name: "p"}},
		RetType: &sysl.Type{Type: &sysl.Type_Primitive_{Primitive: sysl.Type_INT}},
		Expr:    c10Bin(sysl.Expr_BinExpr_ADD, c10Name("p"), c10Name("p")),
	}
	res, ok = c10Eval(ee, scope, &sysl.Expr{Expr: &sysl.Expr_Call_{Call: &sysl.Expr_Call{Func: "double", Arg: []*sysl.Expr{c10Int(v)}}}})
	nd.Assert("call:view", ok && res != nil && res.GetI() == v+v)
	nd.Assert("call:caller-scope-untouched", len(scope) == 1 && scope["rec"] == mv)
}

// flatten: every inner element once, in order
func Harness_C10_Flatten() {
	a := nd.Int("a", 8)
	b := nd.Int("b", 8)
	c := nd.Int("c", 8)
	ee := c10EE()
	scope := Scope{}
	outer := c10List(c10List(c10Int(a), c10Int(b)), c10List(c10Int(c)))
	res, ok := c10Eval(ee, scope, c10BinScoped(sysl.Expr_BinExpr_FLATTEN, outer, c10Bin(sysl.Expr_BinExpr_ADD, c10Name("x"), c10Int(1)), "x"))
	nd.Assert("flatten:evaluates", ok && res != nil && res.GetList() != nil)
	if !ok || res == nil || res.GetList() == nil {
		return
	}
	vs := res.GetList().Value
	nd.Assert("flatten:all-inner-elements", len(vs) == 3)
	if len(vs) == 3 {
		nd.Assert("flatten:order-and-values", vs[0].GetI() == a+1 && vs[1].GetI() == b+1 && vs[2].GetI() == c+1)
	}
	_, has := scope["x"]
	nd.Assert("flatten:scope-variable-not-leaked", !has)
}

// a view that calls itself from inside an operand of != (and of ==): every level of the
// recursion evaluates the same expression nodes, and the result is the one the language
// defines at every depth; the program is left as it was.
func Harness_C10_RecursiveViews() {
	n := nd.Int("n", 8)
	max := int64(4)
	if nd.Thorough() {
		max = 7
	}
	nd.Assume(n >= 0 && n <= max)
	ee := c10EE()
	ifelse := func(c, t, f *sysl.Expr) *sysl.Expr {
		return &sysl.Expr{Expr: &sysl.Expr_Ifelse{Ifelse: &sysl.Expr_IfElse{Cond: c, IfTrue: t, IfFalse: f}}}
	}
	call := func(fn string, args ...*sysl.Expr) *sysl.Expr {
		return &sysl.Expr{Expr: &sysl.Expr_Call_{Call: &sysl.Expr_Call{Func: fn, Arg: args}}}
	}
	boolT := &sysl.Type{Type: &sysl.Type_Primitive_{Primitive: sysl.Type_BOOL}}
	pred := c10Bin(sysl.Expr_BinExpr_SUB, c10Name("p"), c10Int(1))
	ne := c10Bin(sysl.Expr_BinExpr_NE, call("odd", pred), c10Bool(true))
	// odd(p) = if p == 0 then false else odd(p-1) != true
	ee.txApp.Views["odd"] = &sysl.View{Param: []*sysl.Param{{Name: "p"}}, RetType: boolT,
		Expr: ifelse(c10Bin(sysl.Expr_BinExpr_EQ, c10Name("p"), c10Int(0)), c10Bool(false), ne)}
	// even(p) = if p == 0 then true else even(p-1) == false
	eq := c10Bin(sysl.Expr_BinExpr_EQ, call("even", pred), c10Bool(false))
	ee.txApp.Views["even"] = &sysl.View{Param: []*sysl.Param{{Name: "p"}}, RetType: boolT,
		Expr: ifelse(c10Bin(sysl.Expr_BinExpr_EQ, c10Name("p"), c10Int(0)), c10Bool(true), eq)}
	scope := Scope{}
	res, ok := c10Eval(ee, scope, call("odd", c10Int(n)))
	nd.Assert("recursion:not-equal-at-every-depth", ok && res != nil && res.GetB() == (n%2 == 1))
	res, ok = c10Eval(ee, scope, call("even", c10Int(n)))
	nd.Assert("recursion:equal-at-every-depth", ok && res != nil && res.GetB() == (n%2 == 0))
	nd.Assert("recursion:program-unchanged", ne.GetBinexpr().Op == sysl.Expr_BinExpr_NE && eq.GetBinexpr().Op == sysl.Expr_BinExpr_EQ)
	nd.Assert("recursion:caller-scope-untouched", len(scope) == 0)
}

// a let inside a transform that uses the name of a variable bound outside: the transform's
// statements see the new value, the variable bound outside keeps its own; and a nested
// transform whose scope variable has the name of an outer variable gives it back afterwards.
func Harness_C10_LetAndScopeNames() {
	outer := nd.Int("outer", 8)
	inner := nd.Int("inner", 8)
	e := nd.Int("element", 8)
	ee := c10EE()
	scope := Scope{"v": MakeValueI64(outer)}
	letStmt := &sysl.Expr_Transform_Stmt{Stmt: &sysl.Expr_Transform_Stmt_Let{Let: &sysl.Expr_Transform_Stmt_Assign{Name: "v", Expr: c10Int(inner)}}}
	outStmt := &sysl.Expr_Transform_Stmt{Stmt: &sysl.Expr_Transform_Stmt_Assign_{Assign: &sysl.Expr_Transform_Stmt_Assign{Name: "out", Expr: c10Bin(sysl.Expr_BinExpr_ADD, c10Name("v"), c10Name("x"))}}}
	tf := &sysl.Expr{
		Type: &sysl.Type{Type: &sysl.Type_List_{List: &sysl.Type_List{}}},
		Expr: &sysl.Expr_Transform_{Transform: &sysl.Expr_Transform{Arg: c10List(c10Int(e)), Scopevar: "x",
			Stmt: []*sysl.Expr_Transform_Stmt{letStmt, outStmt}}},
	}
	res, ok := c10Eval(ee, scope, tf)
	nd.Assert("let:evaluates", ok && res != nil && len(GetValueSlice(res)) == 1)
	if ok && res != nil && len(GetValueSlice(res)) == 1 {
		v := GetValueSlice(res)[0].GetMap().Items["out"]
		nd.Assert("let:visible-to-later-statements", v != nil && v.GetI() == inner+e)
	}
	nd.Assert("let:variable-bound-outside-keeps-its-value", scope["v"] != nil && scope["v"].GetI() == outer)

	// scope variable named like an outer variable
	scope2 := Scope{"x": MakeValueI64(outer)}
	res, ok = c10Eval(ee, scope2, c10Transform(c10List(c10Int(e)), "x", false, c10Name("x")))
	nd.Assert("scopevar:evaluates", ok && res != nil && len(GetValueSlice(res)) == 1)
	nd.Assert("scopevar:outer-variable-of-the-same-name-restored", scope2["x"] != nil && scope2["x"].GetI() == outer)
}

// Go functions exposed to views: the value of FindAllString / MatchString depends on the
// arguments of that call alone — not on which other calls were evaluated before it — and a
// result handed out earlier is not changed by a later call. The argument triples include
// pairs whose concatenations coincide.
func Harness_C10_GoFuncsIndependent() {
	type call struct {
		pattern, word string
		n             int
		want          []string
	}
	pool := []call{
		{"a|b", "ba", -1, []string{"b", "a"}},
		{"a|bb", "a", -1, []string{"a"}},
		{"x", "xx1", 1, []string{"x"}},
		{"x", "xx", 11, []string{"x", "x"}},
		{"a", "", -1, nil},
		{"", "a", -1, []string{"", ""}},
		{"a|b", "ba", 1, []string{"b"}},
	}
	same := func(got, want []string) bool {
		if len(got) != len(want) {
			return false
		}
		for i := range got {
			if got[i] != want[i] {
				return false
			}
		}
		return true
	}
	c1 := pool[nd.IntRange("first-call", 0, len(pool)-1)]
	c2 := pool[nd.IntRange("second-call", 0, len(pool)-1)]
	var r1, r2 []string
	var m1, m2 bool
	failed, _ := nd.Recovered(func() {
		r1 = FindAllString(c1.pattern, c1.word, c1.n)
		m1 = MatchString(c1.pattern, c1.word)
		r2 = FindAllString(c2.pattern, c2.word, c2.n)
		m2 = MatchString(c2.pattern, c2.word)
	})
	nd.Assert("gofuncs:no-crash", !failed)
	if failed {
		return
	}
	nd.Assert("gofuncs:first-call-value", same(r1, c1.want))
	nd.Assert("gofuncs:second-call-independent-of-first", same(r2, c2.want))
	nd.Assert("gofuncs:match-agrees-with-find", m1 == (len(c1.want) > 0) && m2 == (len(c2.want) > 0))
}
