//go:build verif

// C19 (Mermaid integration diagram) — the same text whatever order Go's maps are iterated in.
package integrationdiagram

import (
	"github.com/anz-bank/sysl/pkg/sysl"
	"github.com/anz-bank/sysl/pkg/zzverif/nd"
)

func c19mCall(dst, ep string) *sysl.Statement {
	return &sysl.Statement{Stmt: &sysl.Statement_Call{Call: &sysl.Call{Target: &sysl.AppName{Part: []string{dst}}, Endpoint: ep}}}
}

func c19mModule() *sysl.Module {
	mk := func(name string, eps map[string][]*sysl.Statement) *sysl.Application {
		app := &sysl.Application{Name: &sysl.AppName{Part: []string{name}}, Endpoints: map[string]*sysl.Endpoint{}}
		for n, st := range eps {
			app.Endpoints[n] = &sysl.Endpoint{Name: n, Stmt: st}
		}
		return app
	}
	return &sysl.Module{Apps: map[string]*sysl.Application{
		"Zeta":  mk("Zeta", map[string][]*sysl.Statement{"z1": {c19mCall("Alpha", "a1")}, "z0": {c19mCall("Mid", "m0")}}),
		"Alpha": mk("Alpha", map[string][]*sysl.Statement{"a1": {c19mCall("Mid", "m1")}, "a0": {c19mCall("Zeta", "z0"), c19mCall("Mid", "m0")}}),
		"Mid":   mk("Mid", map[string][]*sysl.Statement{"m1": {}, "m0": {c19mCall("Alpha", "a1")}}),
	}}
}

func Harness_C19_MermaidIntegration() {
	which := nd.IntRange("diagram", 0, 2) // whole module, one application, several applications
	run := func() string {
		var out string
		var err error
		switch which {
		case 0:
			out, err = GenerateFullIntegrationDiagram(c19mModule())
		case 1:
			out, err = GenerateIntegrationDiagram(c19mModule(), "Alpha")
		default:
			out, err = GenerateMultipleAppIntegrationDiagram(c19mModule(), []string{"Mid", "Zeta"})
		}
		if err != nil {
			return "error: " + err.Error()
		}
		return out
	}
	want := run()
	rounds := 1
	if nd.Replaying() {
		rounds = 64
	}
	for r := 0; r < rounds; r++ {
		got := ""
		nd.AnyMapOrder(func() { got = run() })
		nd.Assert("mermaid-ints:same-text-for-every-map-order", got == want)
	}
}
