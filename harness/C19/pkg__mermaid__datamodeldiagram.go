//go:build verif

// C19 (Mermaid data-model diagram) — the same text whatever order Go's maps are iterated in.
package datamodeldiagram

import (
	"github.com/anz-bank/sysl/pkg/syslwrapper"
	"github.com/anz-bank/sysl/pkg/zzverif/nd"
)

func c19mTypes() map[string]*syslwrapper.Type {
	prim := func(t string) *syslwrapper.Type { return &syslwrapper.Type{Type: t} }
	ref := func(r string) *syslwrapper.Type { return &syslwrapper.Type{Type: "ref", Reference: r} }
	return map[string]*syslwrapper.Type{
		"App:Order":    {Type: "tuple", Properties: map[string]*syslwrapper.Type{"id": prim("int"), "customer": ref("App:Customer"), "note": prim("string")}},
		"App:Customer": {Type: "relation", PrimaryKey: "id", Properties: map[string]*syslwrapper.Type{"id": prim("int"), "name": prim("string")}},
		"App:Colour":   {Type: "enum", Enum: map[int64]string{1: "red", 2: "green", 3: "blue"}},
	}
}

func Harness_C19_MermaidDataModel() {
	run := func() string {
		out, err := generateFullDataDiagramHelper(c19mTypes(), &[]externalLink{})
		if err != nil {
			return "error: " + err.Error()
		}
		return out
	}
	want := run()
	rounds := 1
	if nd.Replaying() {
		rounds = 64
	}
	for r := 0; r < rounds; r++ {
		got := ""
		nd.AnyMapOrder(func() { got = run() })
		nd.Assert("mermaid-data:same-text-for-every-map-order", got == want)
	}
}
