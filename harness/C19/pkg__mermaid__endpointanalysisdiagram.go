//go:build verif

// C19 (Mermaid endpoint analysis diagram) — the same text whatever order Go's maps are iterated in.
package endpointanalysisdiagram

import (
	"github.com/anz-bank/sysl/pkg/sysl"
	"github.com/anz-bank/sysl/pkg/zzverif/nd"
)

func c19mCall(dst, ep string) *sysl.Statement {
	return &sysl.Statement{Stmt: &sysl.Statement_Call{Call: &sysl.Call{Target: &sysl.AppName{Part: []string{dst}}, Endpoint: ep}}}
}

func c19mModule() *sysl.Module {
	mk := func(name string, eps map[string][]*sysl.Statement) *sysl.Application {
		app := &sysl.Application{Name: &sysl.AppName{Part: []string{name}}, Endpoints: map[string]*sysl.Endpoint{}}
		for n, st := range eps {
			app.Endpoints[n] = &sysl.Endpoint{Name: n, Stmt: st}
		}
		return app
	}
	return &sysl.Module{Apps: map[string]*sysl.Application{
		"Zeta":  mk("Zeta", map[string][]*sysl.Statement{"z1": {c19mCall("Alpha", "a1")}, "z0": {c19mCall("Mid", "m0")}}),
		"Alpha": mk("Alpha", map[string][]*sysl.Statement{"a1": {c19mCall("Mid", "m1")}, "a0": {c19mCall("Zeta", "z0"), c19mCall("Mid", "m0")}}),
		"Mid":   mk("Mid", map[string][]*sysl.Statement{"m1": {}, "m0": {c19mCall("Alpha", "a1")}}),
	}}
}

func Harness_C19_MermaidEndpointAnalysis() {
	several := nd.Bool("selected-applications")
	run := func() string {
		var out string
		var err error
		if several {
			out, err = GenerateMultipleAppEndpointAnalysisDiagram(c19mModule(), []string{"Mid", "Zeta"})
		} else {
			out, err = GenerateEndpointAnalysisDiagram(c19mModule())
		}
		if err != nil {
			return "error: " + err.Error()
		}
		return out
	}
	want := run()
	rounds := 1
	if nd.Replaying() {
		rounds = 64
	}
	for r := 0; r < rounds; r++ {
		got := ""
		nd.AnyMapOrder(func() { got = run() })
		nd.Assert("mermaid-epa:same-text-for-every-map-order", got == want)
	}
}
