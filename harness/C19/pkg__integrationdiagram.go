package integrationdiagram

// C19 — determinism of the integration builder: same dependencies, same order,
// whatever order Go's maps are iterated in.

import (
	"github.com/anz-bank/sysl/pkg/sysl"
	"github.com/anz-bank/sysl/pkg/syslutil"
	"github.com/anz-bank/sysl/pkg/zzverif/nd"
)

func c19Call(dst, ep string) *sysl.Statement {
	return &sysl.Statement{Stmt: &sysl.Statement_Call{Call: &sysl.Call{Target: &sysl.AppName{Part: []string{dst}}, Endpoint: ep}}}
}

func c19Module() *sysl.Module {
	mk := func(name string, eps map[string][]*sysl.Statement) *sysl.Application {
		app := &sysl.Application{Name: &sysl.AppName{Part: []string{name}}, Endpoints: map[string]*sysl.Endpoint{}}
		for n, st := range eps {
			app.Endpoints[n] = &sysl.Endpoint{Name: n, Stmt: st}
		}
		return app
	}
	return &sysl.Module{Apps: map[string]*sysl.Application{
		"Zeta":  mk("Zeta", map[string][]*sysl.Statement{"z1": {c19Call("Alpha", "a1")}, "z0": {c19Call("Mid", "m0")}}),
		"Alpha": mk("Alpha", map[string][]*sysl.Statement{"a1": {c19Call("Mid", "m1")}, "a0": {c19Call("Zeta", "z0"), c19Call("Mid", "m0")}}),
		"Mid":   mk("Mid", map[string][]*sysl.Statement{"m1": {}, "m0": {c19Call("Alpha", "a1")}}),
	}}
}

func c19Deps(b *IntsBuilder) string {
	out := ""
	for _, d := range b.DepsOut {
		out += d.String() + "\n"
	}
	for _, a := range b.FinalApps {
		out += "app " + a + "\n"
	}
	return out
}

func Harness_C19_IntsBuilder() {
	seedA := nd.Bool("seed-Alpha")
	seedM := nd.Bool("seed-Mid")
	var stmts []*sysl.Statement
	for _, s := range []struct {
		on   bool
		name string
	}{{true, "Zeta"}, {seedA, "Alpha"}, {seedM, "Mid"}} {
		if s.on {
			stmts = append(stmts, &sysl.Statement{Stmt: &sysl.Statement_Action{Action: &sysl.Action{Action: s.name}}})
		}
	}
	run := func() string {
		return c19Deps(MakeBuilderfromStmt(c19Module(), stmts, syslutil.MakeStrSet(), syslutil.MakeStrSet()))
	}
	want := run()
	rounds := 1
	if nd.Replaying() {
		rounds = 64
	}
	for r := 0; r < rounds; r++ {
		got := ""
		nd.AnyMapOrder(func() { got = run() })
		nd.Assert("ints:same-dependencies-in-the-same-order", got == want)
	}
}
