package exporter

import (
	"strings"

	"github.com/anz-bank/sysl/pkg/syslwrapper"
	"github.com/anz-bank/sysl/pkg/zzverif/nd"
	"github.com/getkin/kin-openapi/openapi3"
)

func c19App() *syslwrapper.App {
	str := func(opt bool) *syslwrapper.Type { return &syslwrapper.Type{Type: "string", Optional: opt} }
	return &syslwrapper.App{Name: "App", Attributes: map[string]string{"version": "1", "x-b": "2", "x-a": "1"},
		Types: map[string]*syslwrapper.Type{
			"T": {Type: "tuple", Properties: map[string]*syslwrapper.Type{"zz": str(false), "aa": str(false), "mm": str(false), "opt": str(true)}},
			"E": {Type: "enum", Enum: map[int64]string{3: "three", 1: "one", 2: "two"}},
		},
		Endpoints: map[string]*syslwrapper.Endpoint{
			"e": {Path: "GET /x", Params: map[string]*syslwrapper.Parameter{
				"zp": {In: "query", Name: "zp", Type: str(false)}, "ap": {In: "query", Name: "ap", Type: str(true)}, "hp": {In: "header", Name: "hp", Type: str(false)}},
				Response: map[string]*syslwrapper.Parameter{"ok": {Name: "ok", Type: str(false)}, "500": {Name: "500", Type: str(false)}}},
		}}
}

// c19Render lists the order-sensitive parts of the exported document.
func c19Render(spec *openapi3.T) string {
	var sb strings.Builder
	t := spec.Components.Schemas["T"].Value
	sb.WriteString("required:" + strings.Join(t.Required, ",") + "\n")
	sb.WriteString("enum:")
	for _, e := range spec.Components.Schemas["E"].Value.Enum {
		sb.WriteString(e.(string) + ",")
	}
	sb.WriteString("\nparams:")
	op := spec.Paths.Find("/x").Get
	for _, p := range op.Parameters {
		sb.WriteString(p.Value.In + "/" + p.Value.Name + ",")
	}
	return sb.String()
}

func Harness_C19_OpenAPI3Export() {
	run := func() string {
		app := c19App()
		ex := MakeOpenAPI3Exporter(map[string]*syslwrapper.App{"App": app}, nil)
		spec, err := ex.GenerateOpenAPI3(app)
		if err != nil {
			return "error"
		}
		return c19Render(spec)
	}
	want := run()
	rounds := 1
	if nd.Replaying() {
		rounds = 64
	}
	for r := 0; r < rounds; r++ {
		got := ""
		nd.AnyMapOrder(func() { got = run() })
		nd.Assert("openapi3:ordered-lists-identical", got == want)
	}
}
