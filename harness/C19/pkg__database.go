package database

import (
	"github.com/anz-bank/sysl/pkg/sysl"
	"github.com/anz-bank/sysl/pkg/zzverif/nd"
)

func c19Loc(line int) *sysl.SourceContext {
	return &sysl.SourceContext{Start: &sysl.SourceContext_Location{Line: int32(line)}}
}

func c19Tables(sameLines bool) map[string]*sysl.Type {
	col := func(line int, pk bool) *sysl.Type {
		t := &sysl.Type{Type: &sysl.Type_Primitive_{Primitive: sysl.Type_INT}, SourceContext: c19Loc(line)}
		if pk {
			t.Attrs = map[string]*sysl.Attribute{"patterns": {Attribute: &sysl.Attribute_A{A: &sysl.Attribute_Array{
				Elt: []*sysl.Attribute{{Attribute: &sysl.Attribute_S{S: "pk"}}}}}}}
		}
		return t
	}
	ref := func(table string, line int) *sysl.Type {
		return &sysl.Type{Type: &sysl.Type_TypeRef{TypeRef: &sysl.ScopedRef{Ref: &sysl.Scope{Path: []string{table, "id"}}}}, SourceContext: c19Loc(line)}
	}
	tbl := func(line int, cols map[string]*sysl.Type) *sysl.Type {
		return &sysl.Type{Type: &sysl.Type_Relation_{Relation: &sysl.Type_Relation{AttrDefs: cols}}, SourceContext: c19Loc(line)}
	}
	l := func(n int) int {
		if sameLines {
			return 7
		}
		return n
	}
	// two entries in the maps whose order could matter; "mid" and "alfa" have the same depth
	return map[string]*sysl.Type{
		"zed":  tbl(l(30), map[string]*sysl.Type{"id": col(31, true), "a": col(l(32), false)}),
		"mid":  tbl(l(20), map[string]*sysl.Type{"id": col(21, true), "z": ref("zed", l(22))}),
		"alfa": tbl(l(10), map[string]*sysl.Type{"id": col(11, true), "z": ref("zed", l(12))}),
	}
}

func c19Twin(label string, run func() string) {
	want := run()
	rounds := 1
	if nd.Replaying() {
		rounds = 64
	}
	for r := 0; r < rounds; r++ {
		got := ""
		nd.AnyMapOrder(func() { got = run() })
		nd.Assert(label, got == want)
	}
}

//verif:shard-quick 8 4
//verif:shard-thorough 8 4
func Harness_C19_DatabaseCreate() {
	same := nd.Bool("tables-and-columns-share-source-lines")
	// two tables of the same depth whose names differ only in case
	twin := nd.Bool("table-names-differ-only-in-case")
	c19Twin("dbscripts:create-byte-identical", func() string {
		v := MakeDatabaseScriptView("t", nil)
		t := c19Tables(same)
		if twin {
			t["ALFA"] = t["mid"]
			delete(t, "mid")
		}
		return v.GenerateDatabaseScriptCreate(t, "postgres", "App")
	})
}

//verif:shard-quick 8 4
//verif:shard-thorough 8 4
func Harness_C19_DatabaseDelta() {
	c19Twin("dbscripts:delta-byte-identical", func() string {
		two := func() map[string]*sysl.Type {
			t := c19Tables(false)
			delete(t, "alfa")
			return t
		}
		v2 := MakeDatabaseScriptView("t", nil)
		oldApp := &sysl.Application{Types: two()}
		newTypes := two()
		delete(newTypes["zed"].GetRelation().AttrDefs, "a")
		newTypes["zed"].GetRelation().AttrDefs["c"] = &sysl.Type{Type: &sysl.Type_Primitive_{Primitive: sysl.Type_STRING}, SourceContext: c19Loc(40)}
		if nd.Thorough() {
			newTypes["mid"].GetRelation().AttrDefs["d"] = &sysl.Type{Type: &sysl.Type_Primitive_{Primitive: sysl.Type_STRING}, SourceContext: c19Loc(41)}
		}
		newApp := &sysl.Application{Types: newTypes}
		out := ""
		for _, o := range v2.ProcessModSysls(map[string]*sysl.Application{"App": oldApp}, map[string]*sysl.Application{"App": newApp}, []string{"App"}, "out", "postgres") {
			out += o.filename + "\n" + o.content
		}
		return out
	})
}
