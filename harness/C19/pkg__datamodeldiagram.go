package datamodeldiagram

import (
	"strings"

	"github.com/anz-bank/sysl/pkg/sysl"
	"github.com/anz-bank/sysl/pkg/zzverif/nd"
)

type c19Labeler struct{}

func (c19Labeler) LabelClass(className string) string { return className }

func c19Ref(target string) *sysl.Type {
	return &sysl.Type{Type: &sysl.Type_TypeRef{TypeRef: &sysl.ScopedRef{
		Context: &sysl.Scope{Appname: &sysl.AppName{Part: []string{"App"}}, Path: []string{"X"}},
		Ref:     &sysl.Scope{Path: []string{target}}}}}
}

func c19DataModule() *sysl.Module {
	prim := func() *sysl.Type { return &sysl.Type{Type: &sysl.Type_Primitive_{Primitive: sysl.Type_INT}} }
	tup := func(attrs map[string]*sysl.Type) *sysl.Type {
		return &sysl.Type{Type: &sysl.Type_Tuple_{Tuple: &sysl.Type_Tuple{AttrDefs: attrs}}}
	}
	// two entries in every map the view ranges over
	return &sysl.Module{Apps: map[string]*sysl.Application{
		"App": {Name: &sysl.AppName{Part: []string{"App"}}, Types: map[string]*sysl.Type{
			"Zed":  tup(map[string]*sysl.Type{"toA": c19Ref("Aaa"), "more": {Type: &sysl.Type_Set{Set: c19Ref("Aaa")}}}),
			"Aaa":  tup(map[string]*sysl.Type{"y": prim(), "toZ": c19Ref("Zed")}),
			"Enum": {Type: &sysl.Type_Enum_{Enum: &sysl.Type_Enum{Items: map[string]int64{"b": 2, "a": 1}}}},
		}},
		"Other": {Name: &sysl.AppName{Part: []string{"Other"}}, Types: map[string]*sysl.Type{
			"Q": tup(map[string]*sysl.Type{"q": prim(), "toZ": c19Ref("Q")}),
		}},
	}}
}

func Harness_C19_DataModelView() {
	run := func() string {
		var sb strings.Builder
		mod := c19DataModule()
		v := MakeDataModelView(c19Labeler{}, mod, &sb, "t", "p")
		return v.GenerateDataView(&DataModelParam{Mod: mod, App: mod.Apps["App"], Title: "t"})
	}
	want := run()
	rounds := 1
	if nd.Replaying() {
		rounds = 64
	}
	for r := 0; r < rounds; r++ {
		got := ""
		nd.AnyMapOrder(func() { got = run() })
		nd.Assert("datamodel:byte-identical", got == want)
	}
}
