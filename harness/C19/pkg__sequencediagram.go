package sequencediagram

import (
	"github.com/anz-bank/sysl/pkg/cmdutils"
	"github.com/anz-bank/sysl/pkg/sysl"
	"github.com/anz-bank/sysl/pkg/zzverif/nd"
)

type c19SeqLabeler struct{}

func (c19SeqLabeler) LabelEndpoint(p *cmdutils.EndpointLabelerParam) string { return p.EndpointName }
func (c19SeqLabeler) LabelApp(appName, controls string, attrs map[string]*sysl.Attribute) string {
	return appName
}

func c19SeqModule() *sysl.Module {
	call := func(app string) *sysl.Statement {
		return &sysl.Statement{Stmt: &sysl.Statement_Call{Call: &sysl.Call{Target: &sysl.AppName{Part: []string{app}}, Endpoint: "e"}}}
	}
	grp := func(g string) map[string]*sysl.Attribute {
		return map[string]*sysl.Attribute{"team": {Attribute: &sysl.Attribute_S{S: g}}}
	}
	mk := func(name, team string, stmts ...*sysl.Statement) *sysl.Application {
		return &sysl.Application{Name: &sysl.AppName{Part: []string{name}}, Attrs: grp(team),
			Endpoints: map[string]*sysl.Endpoint{"e": {Name: "e", Stmt: stmts}}}
	}
	return &sysl.Module{Apps: map[string]*sysl.Application{
		"A": mk("A", "red", call("B"), call("C"), call("D")),
		"B": mk("B", "blue", &sysl.Statement{Stmt: &sysl.Statement_Action{Action: &sysl.Action{Action: "x"}}}),
		"C": mk("C", "red", &sysl.Statement{Stmt: &sysl.Statement_Action{Action: &sysl.Action{Action: "y"}}}),
		"D": mk("D", "blue", &sysl.Statement{Stmt: &sysl.Statement_Action{Action: &sysl.Action{Action: "z"}}}),
	}}
}

func Harness_C19_SequenceDiagramGroups() {
	run := func() string {
		out, err := GenerateSequenceDiag(c19SeqModule(), &SequenceDiagParam{
			AppLabeler: c19SeqLabeler{}, EndpointLabeler: c19SeqLabeler{},
			Endpoints: []string{"A <- e"}, Title: "t", Group: "team",
		}, nil)
		if err != nil {
			return "error: " + err.Error()
		}
		return out
	}
	want := run()
	rounds := 1
	if nd.Replaying() {
		rounds = 64
	}
	for r := 0; r < rounds; r++ {
		got := ""
		nd.AnyMapOrder(func() { got = run() })
		nd.Assert("sequence:byte-identical", got == want)
	}
}
