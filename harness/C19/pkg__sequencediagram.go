package sequencediagram

import (
	"github.com/anz-bank/sysl/pkg/cmdutils"
	"github.com/anz-bank/sysl/pkg/sysl"
	"github.com/anz-bank/sysl/pkg/zzverif/nd"
)

type c19SeqLabeler struct{}

func (c19SeqLabeler) LabelEndpoint(p *cmdutils.EndpointLabelerParam) string { return p.EndpointName }
func (c19SeqLabeler) LabelApp(appName, controls string, attrs map[string]*sysl.Attribute) string {
	return appName
}

func c19SeqModule() *sysl.Module {
	call := func(app string) *sysl.Statement {
		return &sysl.Statement{Stmt: &sysl.Statement_Call{Call: &sysl.Call{Target: &sysl.AppName{Part: []string{app}}, Endpoint: "e"}}}
	}
	grp := func(g string) map[string]*sysl.Attribute {
		return map[string]*sysl.Attribute{"team": {Attribute: &sysl.Attribute_S{S: g}}}
	}
	mk := func(name, team string, stmts ...*sysl.Statement) *sysl.Application {
		return &sysl.Application{Name: &sysl.AppName{Part: []string{name}}, Attrs: grp(team),
			Endpoints: map[string]*sysl.Endpoint{"e": {Name: "e", Stmt: stmts}}}
	}
	return &sysl.Module{Apps: map[string]*sysl.Application{
		"A": mk("A", "red", call("B"), call("C"), call("D")),
		"B": mk("B", "blue", &sysl.Statement{Stmt: &sysl.Statement_Action{Action: &sysl.Action{Action: "x"}}}),
		"C": mk("C", "red", &sysl.Statement{Stmt: &sysl.Statement_Action{Action: &sysl.Action{Action: "y"}}}),
		"D": mk("D", "blue", &sysl.Statement{Stmt: &sysl.Statement_Action{Action: &sysl.Action{Action: "z"}}}),
	}}
}

func Harness_C19_SequenceDiagramGroups() {
	run := func() string {
		out, err := GenerateSequenceDiag(c19SeqModule(), &SequenceDiagParam{
			AppLabeler: c19SeqLabeler{}, EndpointLabeler: c19SeqLabeler{},
			Endpoints: []string{"A <- e"}, Title: "t", Group: "team",
		}, nil)
		if err != nil {
			return "error: " + err.Error()
		}
		return out
	}
	want := run()
	rounds := 1
	if nd.Replaying() {
		rounds = 64
	}
	for r := 0; r < rounds; r++ {
		got := ""
		nd.AnyMapOrder(func() { got = run() })
		nd.Assert("sequence:byte-identical", got == want)
	}
}

// participants of different kinds (external system, database, ordinary application, human):
// the header lists them in one order whatever order the symbol table is iterated in
func Harness_C19_SequenceDiagramParticipantKinds() {
	call := func(app string) *sysl.Statement {
		return &sysl.Statement{Stmt: &sysl.Statement_Call{Call: &sysl.Call{Target: &sysl.AppName{Part: []string{app}}, Endpoint: "e"}}}
	}
	pat := func(p string) map[string]*sysl.Attribute {
		if p == "" {
			return nil
		}
		return map[string]*sysl.Attribute{"patterns": {Attribute: &sysl.Attribute_A{A: &sysl.Attribute_Array{
			Elt: []*sysl.Attribute{{Attribute: &sysl.Attribute_S{S: p}}}}}}}
	}
	kinds := []string{"", "external", "db", "cron", "human", "ui"}
	k := []string{
		kinds[nd.IntRange("kind-of-Partner", 0, len(kinds)-1)],
		kinds[nd.IntRange("kind-of-Gateway", 0, len(kinds)-1)],
		kinds[nd.IntRange("kind-of-Store", 0, len(kinds)-1)],
	}
	module := func() *sysl.Module {
		mk := func(name, kind string, stmts ...*sysl.Statement) *sysl.Application {
			return &sysl.Application{Name: &sysl.AppName{Part: []string{name}}, Attrs: pat(kind),
				Endpoints: map[string]*sysl.Endpoint{"e": {Name: "e", Stmt: stmts}}}
		}
		act := &sysl.Statement{Stmt: &sysl.Statement_Action{Action: &sysl.Action{Action: "x"}}}
		return &sysl.Module{Apps: map[string]*sysl.Application{
			"Partner": mk("Partner", k[0], call("Gateway")),
			"Gateway": mk("Gateway", k[1], call("Store"), act),
			"Store":   mk("Store", k[2], act),
		}}
	}
	run := func() string {
		out, err := GenerateSequenceDiag(module(), &SequenceDiagParam{
			AppLabeler: c19SeqLabeler{}, EndpointLabeler: c19SeqLabeler{}, Endpoints: []string{"Partner <- e"}, Title: "t",
		}, nil)
		if err != nil {
			return "error: " + err.Error()
		}
		return out
	}
	want := run()
	rounds := 1
	if nd.Replaying() {
		rounds = 64
	}
	for r := 0; r < rounds; r++ {
		got := ""
		nd.AnyMapOrder(func() { got = run() })
		nd.Assert("sequence:participants-in-one-order", got == want)
	}
}
