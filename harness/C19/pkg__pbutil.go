//go:build verif

// C19 (indented JSON) — the JSON written for a model does not depend on the encoder's
// whitespace salt: protojson adds, per key line and depending on a per-build salt, a second
// blank after "key":, and FJSONPBWithOpt removes it again with extraSpaceAfterKeyRE. Real
// code executed: the regular expression (regexp engine from SSA) on a line model of the
// encoder's output with a symbolic map key; natively the real FJSONPBWithOpt output must
// equal the salt-free text of the model.
package pbutil

import (
	"bytes"

	"github.com/anz-bank/sysl/pkg/sysl"
	"github.com/anz-bank/sysl/pkg/zzverif/nd"
)

func c19Esc(s string) string {
	out := ""
	for i := 0; i < len(s); i++ {
		c := s[i]
		switch {
		case c == '"':
			out += "\\\""
		case c == '\\':
			out += "\\\\"
		case c == '\n':
			out += "\\n"
		case c == '\r':
			out += "\\r"
		case c == '\t':
			out += "\\t"
		default:
			out += s[i : i+1]
		}
	}
	return out
}

// c19Doc: what the multi-line encoder writes for {apps: {key: {name: {part: [p]}, longName: "v"}}}
func c19Doc(key string, extra []bool) string {
	x := func(i int) string {
		if extra[i] {
			return " "
		}
		return ""
	}
	return "{\n" +
		" \"apps\": " + x(0) + "{\n" +
		"  \"" + c19Esc(key) + "\": " + x(1) + "{\n" +
		"   \"name\": " + x(2) + "{\n" +
		"    \"part\": " + x(3) + "[\n" +
		"     \"p\"\n" +
		"    ]\n" +
		"   },\n" +
		"   \"longName\": " + x(4) + "\"v\"\n" +
		"  }\n" +
		" }\n" +
		"}"
}

//verif:shard-quick 8 4
//verif:shard-thorough 16 5
func Harness_C19_JSONSalt() {
	L := 3
	if nd.Thorough() {
		L = 4
	}
	key := nd.String("key", L)
	for i := 0; i < len(key); i++ {
		c := key[i]
		nd.Assume(c >= 0x20 && c < 0x7f || c == '\t' || c == '\n')
	}
	nd.Assume(len(key) > 0)
	want := c19Doc(key, make([]bool, 5))
	if nd.Replaying() {
		m := &sysl.Module{Apps: map[string]*sysl.Application{key: {Name: &sysl.AppName{Part: []string{"p"}}, LongName: "v"}}}
		var buf bytes.Buffer
		err := FJSONPBWithOpt(&buf, m, OutputOptions{})
		nd.Assert("json:same-text-whatever-the-encoders-salt", err == nil && buf.String() == want)
		return
	}
	// salt: present on the line of the symbolic key or not; present on every other key line
	extra := []bool{true, nd.Bool("extra-blank-after-the-key"), true, true, true}
	got := string(extraSpaceAfterKeyRE.ReplaceAll([]byte(c19Doc(key, extra)), []byte("$1")))
	nd.Assert("json:same-text-whatever-the-encoders-salt", got == want)
}
