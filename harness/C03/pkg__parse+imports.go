//go:build verif

// C03 (layout around imports) — blank lines and whole-line comments, indented or not, in
// front of and between import statements do not change which files are compiled. Real code:
// the whole front end (the import scan of extractImports, the ANTLR pre-parse of the import
// lines, the lexer's handling of comment and blank lines before the first application).
package parse

import (
	"github.com/anz-bank/sysl/pkg/zzverif/nd"
)

var c03Noise = []string{"", "# comment\n", "    # indented comment\n", "\t# tab-indented comment\n", "\n", "   \n", "\t\n"}

//verif:shard-quick 8 2
//verif:shard-thorough 8 2
func Harness_C03_LayoutAroundImports() {
	before := nd.IntRange("noise-before-the-imports", 0, len(c03Noise)-1)
	between := nd.IntRange("noise-between-the-imports", 0, len(c03Noise)-1)
	after := nd.IntRange("noise-after-the-imports", 0, len(c03Noise)-1)
	if !nd.Thorough() {
		// quick: noise in one place at a time
		k := 0
		if before > 0 {
			k++
		}
		if between > 0 {
			k++
		}
		if after > 0 {
			k++
		}
		nd.Assume(k <= 1)
	}
	root := c03Noise[before] + "import b\n" + c03Noise[between] + "import c\n" + c03Noise[after] + "Root:\n    ...\n"
	mod, err, crashed, msg := feCompile(map[string]string{"a.sysl": root, "b.sysl": "B:\n    ...\n", "c.sysl": "C:\n    ...\n"}, "a.sysl")
	nd.Note(msg)
	nd.Assert("imports:layout-keeps-the-spec-acceptable", !crashed && err == nil && mod != nil)
	if mod == nil {
		return
	}
	nd.Assert("imports:layout-keeps-every-imported-file", len(mod.Apps) == 3 && mod.Apps["Root"] != nil && mod.Apps["B"] != nil && mod.Apps["C"] != nil)
	nd.Assert("imports:layout-keeps-the-import-list", len(mod.Imports) == 2)
}
