package parser

import "github.com/antlr/antlr4/runtime/Go/antlr"

// Executor-side stand-ins used by harnesses that run the real front end (lexer, parser,
// listener) inside the executor. Natively none of them is used.

// The real per-lexer state map is a lock-free hash map built on unsafe pointer
// arithmetic; its contract is: one state object per live lexer, created on first use,
// dropped by DeleteLexerState.
var verifLexerStates = map[*SyslLexer]*lexerState{}

func VerifLs(l *SyslLexer) *lexerState {
	if st, ok := verifLexerStates[l]; ok {
		return st
	}
	st := &lexerState{}
	verifLexerStates[l] = st
	return st
}

func VerifDeleteLexerState(l *SyslLexer) { delete(verifLexerStates, l) }

// Like NewThreadSafeSyslLexer / NewThreadSafeSyslParser these give every instance its own
// DFA and prediction-context caches, but share the package's deserialised, read-only ATN
// instead of deserialising it again for every instance (pure cost, no behaviour).
func VerifNewLexer(input antlr.CharStream) *SyslLexer {
	l := NewSyslLexer(input)
	dfas := make([]*antlr.DFA, len(lexerAtn.DecisionToState))
	for index, ds := range lexerAtn.DecisionToState {
		dfas[index] = antlr.NewDFA(ds, index)
	}
	l.Interpreter = antlr.NewLexerATNSimulator(l, lexerAtn, dfas, antlr.NewPredictionContextCache())
	return l
}

func VerifNewParser(input antlr.TokenStream) *SyslParser {
	p := NewSyslParser(input)
	dfas := make([]*antlr.DFA, len(deserializedATN.DecisionToState))
	for index, ds := range deserializedATN.DecisionToState {
		dfas[index] = antlr.NewDFA(ds, index)
	}
	p.Interpreter = antlr.NewParserATNSimulator(p, deserializedATN, dfas, antlr.NewPredictionContextCache())
	return p
}
