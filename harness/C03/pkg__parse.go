package parse

// Shared front-end driver for harnesses: compiles a set of in-memory files through the
// real public pipeline parse.Parser.Parse (collectSpecs, extractImports, parseImports,
// parseSpecs, the ANTLR lexer and parser, the tree walk with the listener, post-processing).

import (
	"context"
	"fmt"

	"github.com/anz-bank/golden-retriever/retriever"
	parser "github.com/anz-bank/sysl/pkg/grammar"
	"github.com/anz-bank/sysl/pkg/sysl"
	"github.com/anz-bank/sysl/pkg/zzverif/nd"
	"github.com/spf13/afero"
)

type feReader struct {
	afero.Fs
	files map[string]string
}

func (r *feReader) Read(ctx context.Context, p string) ([]byte, error) {
	b, _, _, err := r.ReadHashBranch(ctx, p)
	return b, err
}
func (r *feReader) ReadHash(ctx context.Context, p string) ([]byte, retriever.Hash, error) {
	b, h, _, err := r.ReadHashBranch(ctx, p)
	return b, h, err
}
func (r *feReader) ReadHashBranch(ctx context.Context, p string) ([]byte, retriever.Hash, string, error) {
	key := string(fileNameToIndex(p))
	if len(key) > 2 && key[:2] == "./" {
		key = key[2:]
	}
	c, ok := r.files[key]
	if !ok {
		return nil, retriever.ZeroHash, "", fmt.Errorf("no such file %s", p)
	}
	return []byte(c), retriever.ZeroHash, "", nil
}

// feSetup installs the executor-side stand-ins (no effect natively).
func feSetup() {
	if nd.Replaying() {
		return
	}
	nd.BudgetSteps(2000000000)
	nd.BudgetDepth(3000)
	nd.Stub("github.com/anz-bank/sysl/pkg/grammar.ls", parser.VerifLs)
	nd.Stub("github.com/anz-bank/sysl/pkg/grammar.DeleteLexerState", parser.VerifDeleteLexerState)
	nd.Stub("github.com/anz-bank/sysl/pkg/grammar.NewThreadSafeSyslLexer", parser.VerifNewLexer)
	nd.Stub("github.com/anz-bank/sysl/pkg/grammar.NewThreadSafeSyslParser", parser.VerifNewParser)
}

// feCompile compiles root from files. crashed reports a panic (or process exit) that
// escaped Parse; msg describes it.
func feCompile(files map[string]string, root string) (mod *sysl.Module, err error, crashed bool, msg string) {
	feSetup()
	crashed, msg = nd.Recovered(func() {
		mod, err = NewParser().Parse(root, &feReader{files: files})
	})
	return
}

func feCompileText(text string) (*sysl.Module, error, bool, string) {
	return feCompile(map[string]string{"a.sysl": text}, "a.sysl")
}
