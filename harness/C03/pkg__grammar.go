package parser

// C03 — layout does not change meaning.
// Real code executed: calcSpaces, getNextToken, stack.*, getPreviousIndent,
// createIndentToken/createDedentToken, the generated lexer actions (WS_Action,
// NEWLINE_Action, EMPTY_LINE_Action, INDENTED_COMMENT_Action, EMPTY_COMMENT_Action),
// antlr.BaseLexer.NextToken/Emit/EmitEOF and the token factory.
// The ATN simulator (which characters form which token) is replaced by a scripted
// simulator: the harness decides the token sequence, the real code decides
// INDENT/DEDENT.

import (
	"github.com/antlr/antlr4/runtime/Go/antlr"
	"github.com/anz-bank/sysl/pkg/zzverif/nd"
)

type c03Item struct {
	typ    int
	text   string
	hidden bool
	kind   int // action selector
	line   int // logical line of a content token, -1 otherwise
}

const (
	c03ActNone = iota
	c03ActWS
	c03ActNL
	c03ActEmptyLine
	c03ActIndentedComment
	c03ActEmptyComment
)

// c03Stream is a CharStream whose only observable is "at EOF or not".
type c03Stream struct {
	script []c03Item
	pos    int
}

func (s *c03Stream) Consume() {}
func (s *c03Stream) LA(int) int {
	if s.pos >= len(s.script) {
		return antlr.TokenEOF
	}
	return 'x'
}
func (s *c03Stream) Mark() int                                      { return 0 }
func (s *c03Stream) Release(int)                                    {}
func (s *c03Stream) Index() int                                     { return s.pos }
func (s *c03Stream) Seek(int)                                       {}
func (s *c03Stream) Size() int                                      { return len(s.script) }
func (s *c03Stream) GetSourceName() string                          { return "c03" }
func (s *c03Stream) GetText(int, int) string                        { return "" }
func (s *c03Stream) GetTextFromTokens(start, end antlr.Token) string { return "" }
func (s *c03Stream) GetTextFromInterval(*antlr.Interval) string     { return "" }

// c03Sim is the scripted stand-in for the lexer's ATN simulator.
type c03Sim struct {
	antlr.ILexerATNSimulator // nil: supplies the unexported methods
	lex                      *SyslLexer
	in                       *c03Stream
}

func (m *c03Sim) Match(input antlr.CharStream, mode int) int {
	if m.in.pos >= len(m.in.script) {
		return antlr.TokenEOF
	}
	it := m.in.script[m.in.pos]
	m.in.pos++
	m.lex.SetText(it.text)
	switch it.kind {
	case c03ActWS:
		m.lex.WS_Action(nil, 14)
	case c03ActNL:
		m.lex.NEWLINE_Action(nil, 11)
	case c03ActEmptyLine:
		m.lex.EMPTY_LINE_Action(nil, 9)
	case c03ActIndentedComment:
		m.lex.INDENTED_COMMENT_Action(nil, 10)
	case c03ActEmptyComment:
		m.lex.EMPTY_COMMENT_Action(nil, 8)
	}
	if it.hidden {
		m.lex.SetChannel(antlr.TokenHiddenChannel)
	}
	return it.typ
}
func (m *c03Sim) GetCharPositionInLine() int            { return 0 }
func (m *c03Sim) GetLine() int                          { return 1 }
func (m *c03Sim) GetText(input antlr.CharStream) string { return "" }
func (m *c03Sim) Consume(input antlr.CharStream)        {}

var c03State *lexerState

func c03ls(l *SyslLexer) *lexerState { return c03State }

// c03Run feeds a script through the real token machine and returns the
// default-channel tokens: -1 INDENT, -2 DEDENT, i>=0 content token of line i, -3 EOF.
func c03Run(script []c03Item) []int {
	in := &c03Stream{script: script}
	l := &SyslLexer{BaseLexer: antlr.NewBaseLexer(in)}
	l.Virt = l
	sim := &c03Sim{lex: l, in: in}
	l.Interpreter = sim
	if nd.Replaying() {
		c03State = ls(l) // the real per-lexer state
		defer DeleteLexerState(l)
	} else {
		c03State = &lexerState{}
		nd.Stub("github.com/anz-bank/sysl/pkg/grammar.ls", c03ls)
	}
	// content tokens are told apart by the order in which they come out
	var out []int
	content := 0
	for guard := 0; guard < 8*len(script)+16; guard++ {
		t := l.NextToken()
		if t.GetChannel() != antlr.TokenDefaultChannel {
			continue
		}
		switch t.GetTokenType() {
		case SyslLexerINDENT:
			out = append(out, -1)
		case SyslLexerDEDENT:
			out = append(out, -2)
		case antlr.TokenEOF:
			out = append(out, -3)
			return out
		default:
			out = append(out, content)
			content++
		}
	}
	out = append(out, -4) // did not reach EOF within the unwinding bound
	return out
}

func c03Blanks(name string, maxLen int) string {
	s := nd.String(name, maxLen)
	for i := 0; i < len(s); i++ {
		nd.Assume(s[i] == ' ' || s[i] == '\t')
	}
	return s
}

// c03Line appends the tokens of one logical line.
func c03Line(script []c03Item, ws string, line int) []c03Item {
	if len(ws) > 0 {
		script = append(script, c03Item{typ: SyslLexerWS, text: ws, hidden: true, kind: c03ActWS, line: -1})
	}
	script = append(script, c03Item{typ: SyslLexerName, text: "x", line: line})
	script = append(script, c03Item{typ: SyslLexerNEWLINE, text: "\n", hidden: true, kind: c03ActNL, line: -1})
	return script
}

func c03Same(a, b []int) bool {
	if len(a) != len(b) {
		return false
	}
	for i := range a {
		if a[i] != b[i] {
			return false
		}
	}
	return true
}

func c03Lines() int {
	if nd.Thorough() {
		return 4
	}
	return 3
}

func c03Repeat(s string, k int) string {
	out := ""
	for i := 0; i < k; i++ {
		out += s
	}
	return out
}

// (a) the width function: a tab counts four, a blank one, nothing else counts.
func Harness_C03_Width() {
	L := 6
	if nd.Thorough() {
		L = 8
	}
	ws := nd.String("ws", L)
	blanks, tabs := 0, 0
	for i := 0; i < len(ws); i++ {
		switch ws[i] {
		case ' ':
			blanks++
		case '\t':
			tabs++
		}
	}
	nd.Assert("width=blanks+4*tabs", calcSpaces(ws) == blanks+4*tabs)
}

// widths are additive, so uniform re-indentation by k scales them by k.
func Harness_C03_WidthScales() {
	ws := nd.String("ws", 4)
	k := nd.IntRange("k", 1, 4)
	nd.Assert("width-scales", calcSpaces(c03Repeat(ws, k)) == k*calcSpaces(ws))
}

// a tab replaced by four blanks keeps the width.
func Harness_C03_WidthTabs() {
	ws := nd.String("ws", 5)
	exp := ""
	for i := 0; i < len(ws); i++ {
		if ws[i] == '\t' {
			exp += "    "
		} else {
			exp += ws[i : i+1]
		}
	}
	nd.Assert("tab=4-blanks", calcSpaces(exp) == calcSpaces(ws))
}

// concatenation is additive.
func Harness_C03_WidthAdditive() {
	ws := nd.String("ws", 4)
	ws2 := nd.String("ws2", 2)
	nd.Assert("width-additive", calcSpaces(ws+ws2) == calcSpaces(ws)+calcSpaces(ws2))
}

// (b1) uniform re-indentation by k does not change INDENT/DEDENT structure.
func Harness_C03_Scale() {
	n := c03Lines()
	k := nd.IntRange("k", 2, 4)
	var a, b []c03Item
	for i := 0; i < n; i++ {
		ws := c03Blanks("ws"+string(rune('0'+i)), 2)
		a = c03Line(a, ws, i)
		b = c03Line(b, c03Repeat(ws, k), i)
	}
	ta := c03Run(a)
	tb := c03Run(b)
	nd.Assert("terminates", ta[len(ta)-1] == -3 && tb[len(tb)-1] == -3)
	nd.Assert("scale:same-structure", c03Same(ta, tb))
}

// (b2) a tab is four blanks at line start.
func Harness_C03_Tabs() {
	n := c03Lines()
	var a, b []c03Item
	for i := 0; i < n; i++ {
		ws := c03Blanks("ws"+string(rune('0'+i)), 2)
		exp := ""
		for j := 0; j < len(ws); j++ {
			if ws[j] == '\t' {
				exp += "    "
			} else {
				exp += " "
			}
		}
		a = c03Line(a, ws, i)
		b = c03Line(b, exp, i)
	}
	ta := c03Run(a)
	tb := c03Run(b)
	nd.Assert("tabs:same-structure", c03Same(ta, tb))
}

// (b3) blank lines and whole-line comments (with any indentation of their own)
// before, between and after lines do not change the structure. Up to two
// noise lines, each at an arbitrary line boundary.
//verif:split-quick m=0..2 g0=0..3
//verif:split-thorough m=0..3 g0=0..4
func Harness_C03_Noise() {
	n := c03Lines()
	maxNoise, wl := 2, 1
	if nd.Thorough() {
		maxNoise, wl = 3, 2
	}
	m := nd.IntRange("m", 0, maxNoise)
	gaps := make([]int, m)
	kinds := make([]int, m)
	wss := make([]string, m)
	for j := 0; j < m; j++ {
		tag := "g" + string(rune('0'+j))
		gaps[j] = nd.IntRange(tag, 0, n)
		if j > 0 {
			nd.Assume(gaps[j] >= gaps[j-1]) // noise lines are listed in file order
		}
		kinds[j] = nd.IntRange(tag+".kind", 0, 3)
		if kinds[j] <= 1 {
			wss[j] = c03Blanks(tag+".ws", 1)
		}
	}
	var a, b []c03Item
	firstIndented, noiseBeforeFirst := false, false
	for i := 0; i <= n; i++ {
		for j := 0; j < m; j++ {
			if gaps[j] == 0 {
				noiseBeforeFirst = true
			}
			if gaps[j] != i {
				continue
			}
			switch kinds[j] {
			case 0:
				b = append(b, c03Item{typ: SyslLexerEMPTY_LINE, text: wss[j] + " \n", hidden: true, kind: c03ActEmptyLine, line: -1})
			case 1:
				b = append(b, c03Item{typ: SyslLexerINDENTED_COMMENT, text: wss[j] + " #c\n", hidden: true, kind: c03ActIndentedComment, line: -1})
			case 2:
				b = append(b, c03Item{typ: SyslLexerEMPTY_COMMENT, text: "#\n", hidden: true, kind: c03ActEmptyComment, line: -1})
			case 3:
				// comment at column 0 followed by its newline
				b = append(b, c03Item{typ: SyslLexerSYSL_COMMENT, text: "# c", hidden: true, line: -1})
				b = append(b, c03Item{typ: SyslLexerNEWLINE, text: "\n", hidden: true, kind: c03ActNL, line: -1})
			}
		}
		if i == n {
			break
		}
		ws := c03Blanks("ws"+string(rune('0'+i)), wl)
		if i == 0 && len(ws) > 0 {
			firstIndented = true
		}
		a = c03Line(a, ws, i)
		b = c03Line(b, ws, i)
	}
	ta := c03Run(a)
	tb := c03Run(b)
	if firstIndented && noiseBeforeFirst {
		// the very first line of a file is not measured (no newline seen yet);
		// a blank/comment line in front of it makes its indentation count.
		nd.Assert("noise:before-an-indented-first-line", c03Same(ta, tb))
	} else {
		nd.Assert("noise:same-structure", c03Same(ta, tb))
	}
}

// (b4) the structure is what the indentation rule says: a reference
// implementation of the off-side rule over the widths.
func Harness_C03_Reference() {
	n := c03Lines()
	var a []c03Item
	widths := make([]int, n)
	for i := 0; i < n; i++ {
		ws := c03Blanks("ws"+string(rune('0'+i)), 2)
		w := 0
		for j := 0; j < len(ws); j++ {
			if ws[j] == '\t' {
				w += 4
			} else {
				w++
			}
		}
		if i == 0 {
			w = 0 // the machine only measures indentation after a newline: the first line is at level 0
		}
		widths[i] = w
		a = c03Line(a, ws, i)
	}
	ta := c03Run(a)
	// reference: Python-like indent stack
	var want []int
	var st []int
	top := func() int {
		if len(st) == 0 {
			return 0
		}
		return st[len(st)-1]
	}
	emit := func(w int) {
		for w != top() {
			if w > top() {
				st = append(st, w)
				want = append(want, -1)
			} else {
				st = st[:len(st)-1]
				want = append(want, -2)
			}
		}
	}
	for i := 0; i < n; i++ {
		emit(widths[i])
		want = append(want, i)
	}
	emit(0)
	want = append(want, -3)
	nd.Assert("reference:structure", c03Same(ta, want))
}
