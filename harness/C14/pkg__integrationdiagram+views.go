//go:build verif

// C14 (project views) — every endpoint of the project application is a view of its own:
// the applications it lists, minus the applications *it* excludes. Real code executed:
// GenerateIntegrations (the loop over the project's endpoints, in every iteration order),
// MakeBuilderfromStmt, GenerateView and the PlantUML writer; the drawn arrows are read
// back from the generated text.
package integrationdiagram

import (
	"strings"

	"github.com/anz-bank/sysl/pkg/cmdutils"
	"github.com/anz-bank/sysl/pkg/sysl"
	"github.com/anz-bank/sysl/pkg/zzverif/nd"
	"github.com/sirupsen/logrus"
)

// c14Arrows reads the arrows of a generated diagram back into (source, target) application
// pairs: component diagrams ("[Name] as _n", "_n --> _m") and endpoint-analysis diagrams
// (state "App" as X_k { state "ep" as _n }, "_n -[#colour]> _m"; arrows inside one
// application are not calls between applications).
func c14Arrows(puml string) (pairs [][2]string) {
	owner := map[string]string{}
	current := ""
	lines := strings.Split(puml, "\n")
	alias := func(rest string) string {
		if j := strings.IndexByte(rest, ' '); j >= 0 {
			return rest[:j]
		}
		return rest
	}
	for _, l := range lines {
		switch {
		case strings.HasPrefix(l, "[") && strings.Contains(l, "] as "):
			i := strings.Index(l, "] as ")
			owner[alias(l[i+5:])] = l[1:i]
		case strings.HasPrefix(l, "state \""):
			rest := l[len("state \""):]
			if i := strings.Index(rest, "\" as X"); i >= 0 {
				current = rest[:i]
			}
		case strings.HasPrefix(l, "  state \""):
			rest := l[len("  state \""):]
			if i := strings.Index(rest, "\" as "); i >= 0 {
				owner[alias(rest[i+5:])] = current
			}
		}
	}
	for _, l := range lines {
		if !strings.HasPrefix(l, "_") {
			continue
		}
		src, dst := "", ""
		if i := strings.Index(l, " --> "); i > 0 {
			src, dst = l[:i], alias(l[i+5:])
		} else if i := strings.Index(l, " -[#"); i > 0 {
			if j := strings.Index(l, "> "); j > i {
				src, dst = l[:i], alias(l[j+2:])
			}
		}
		if src == "" || owner[src] == owner[dst] {
			continue
		}
		pairs = append(pairs, [2]string{owner[src], owner[dst]})
	}
	return
}

func c14StrArray(name string, vals []string) map[string]*sysl.Attribute {
	if len(vals) == 0 {
		return nil
	}
	var elts []*sysl.Attribute
	for _, v := range vals {
		elts = append(elts, &sysl.Attribute{Attribute: &sysl.Attribute_S{S: v}})
	}
	return map[string]*sysl.Attribute{name: {Attribute: &sysl.Attribute_A{A: &sysl.Attribute_Array{Elt: elts}}}}
}

//verif:shard-quick 16 4
//verif:shard-thorough 16 6
func Harness_C14_ProjectViews() {
	nviews := 2
	if nd.Thorough() {
		nviews = 3
	}
	// A calls B and C; B calls the same endpoint of C
	calls := []c14Call{{src: 0, sep: 0, dst: 1, dep: 0}, {src: 0, sep: 1, dst: 2, dep: 0}, {src: 1, sep: 0, dst: 2, dep: 0}}
	view := nd.IntRange("view", 0, 2) // plain, clustered, endpoint analysis
	human, hidden := c14NoFlags()
	m := c14Build(calls, human, hidden)
	proj := &sysl.Application{Name: &sysl.AppName{Part: []string{"Project"}}, Endpoints: map[string]*sysl.Endpoint{}}
	exB := make([]bool, nviews)
	exC := make([]bool, nviews)
	listB := make([]bool, nviews)
	for v := 0; v < nviews; v++ {
		tag := "view" + string(rune('0'+v))
		exB[v] = nd.Bool(tag + "-excludes-B")
		exC[v] = nd.Bool(tag + "-excludes-C")
		listB[v] = nd.Bool(tag + "-lists-B")
		nd.Assume(!(listB[v] && exB[v])) // a view does not exclude what it lists
		var ex []string
		if exB[v] {
			ex = append(ex, "B")
		}
		if exC[v] {
			ex = append(ex, "C")
		}
		proj.Endpoints["V"+string(rune('0'+v))] = &sysl.Endpoint{
			Name:  "V" + string(rune('0'+v)),
			Attrs: c14StrArray("exclude", ex),
			Stmt:  c14Listed([]bool{true, listB[v], false}),
		}
	}
	m.mod.Apps["Project"] = proj
	var r map[string]string
	var err error
	crashed, msg := nd.Recovered(func() {
		run := func() {
			r, err = GenerateIntegrations(&cmdutils.CmdContextParamIntgen{Output: "%(epname).png", Project: "Project", Clustered: view == 1, EPA: view == 2}, m.mod, logrus.New())
		}
		if view == 0 {
			// every order of the project's endpoint map (and of every other map on the way)
			nd.AnyMapOrder(run)
		} else {
			run()
		}
	})
	nd.Note(msg)
	nd.Assert("views:no-crash", !crashed && err == nil)
	if crashed || err != nil {
		return
	}
	nd.Assert("views:one-diagram-per-project-endpoint", len(r) == nviews)
	for v := 0; v < nviews; v++ {
		text, ok := r["V"+string(rune('0'+v))+".png"]
		nd.Assert("views:diagram-present", ok)
		if !ok {
			continue
		}
		ab, ac, bc, other := false, false, false, false
		for _, p := range c14Arrows(text) {
			switch {
			case p[0] == "A" && p[1] == "B":
				ab = true
			case p[0] == "A" && p[1] == "C":
				ac = true
			case p[0] == "B" && p[1] == "C":
				bc = true
			default:
				other = true
			}
		}
		nd.Assert("views:only-calls-of-the-model", !other)
		// a view's own excludes decide, not those of the views rendered before it
		nd.Assert("views:call-to-a-non-excluded-application-is-drawn", ab == !exB[v] && ac == !exC[v])
		nd.Assert("views:call-between-drawn-applications", bc == (!exC[v] && !exB[v] && (listB[v] || ab)))
	}
}
