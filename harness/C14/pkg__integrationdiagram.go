package integrationdiagram

// C14 — integration diagrams show exactly the calls among the selected applications.
// Real code executed: MakeBuilderfromStmt, ProcessCalls, ProcessExcludeAndPassthrough,
// WalkPassthrough, MyCallers, IndirectCalls, AddCall, AppDependency.String, sortedSlice,
// syslutil.HasPattern/GetAppName/MakeStrSet/StrSet.*.

import (
	"github.com/anz-bank/sysl/pkg/sysl"
	"github.com/anz-bank/sysl/pkg/syslutil"
	"github.com/anz-bank/sysl/pkg/zzverif/nd"
)

var c14Apps = []string{"A", "B", "C"}
var c14Eps = []string{"e0", "e1"}

type c14Call struct {
	src, sep int // source app / endpoint
	dst, dep int // target app / endpoint
	kind     int // nesting kind
}

type c14Model struct {
	mod    *sysl.Module
	calls  []c14Call
	human  []bool
	hidden [][]bool
}

func c14Pat(p string) map[string]*sysl.Attribute {
	return map[string]*sysl.Attribute{"patterns": {Attribute: &sysl.Attribute_A{A: &sysl.Attribute_Array{
		Elt: []*sysl.Attribute{{Attribute: &sysl.Attribute_S{S: p}}}}}}}
}

func c14CallStmt(dst, dep string) *sysl.Statement {
	return &sysl.Statement{Stmt: &sysl.Statement_Call{Call: &sysl.Call{Target: &sysl.AppName{Part: []string{dst}}, Endpoint: dep}}}
}

// c14ReturnFirst: the statement before a nested call is a return instead of an action
var c14ReturnFirst bool

// c14Wrap nests a statement inside the statement kind k (0 = not nested).
func c14Wrap(k int, s *sysl.Statement) *sysl.Statement {
	in := []*sysl.Statement{{Stmt: &sysl.Statement_Action{Action: &sysl.Action{Action: "pre"}}}, s}
	if c14ReturnFirst {
		// a return statement does not end the list of calls an endpoint makes
		in = []*sysl.Statement{{Stmt: &sysl.Statement_Ret{Ret: &sysl.Return{Payload: "early"}}}, s}
	}
	switch k {
	case 1:
		return &sysl.Statement{Stmt: &sysl.Statement_Cond{Cond: &sysl.Cond{Test: "c", Stmt: in}}}
	case 2:
		return &sysl.Statement{Stmt: &sysl.Statement_Loop{Loop: &sysl.Loop{Stmt: in}}}
	case 3:
		return &sysl.Statement{Stmt: &sysl.Statement_LoopN{LoopN: &sysl.LoopN{Count: 2, Stmt: in}}}
	case 4:
		return &sysl.Statement{Stmt: &sysl.Statement_Foreach{Foreach: &sysl.Foreach{Collection: "c", Stmt: in}}}
	case 5:
		return &sysl.Statement{Stmt: &sysl.Statement_Group{Group: &sysl.Group{Title: "g", Stmt: in}}}
	case 6:
		return &sysl.Statement{Stmt: &sysl.Statement_Alt{Alt: &sysl.Alt{Choice: []*sysl.Alt_Choice{
			{Cond: "x", Stmt: []*sysl.Statement{{Stmt: &sysl.Statement_Ret{Ret: &sysl.Return{Payload: "ok"}}}}},
			{Cond: "y", Stmt: in}}}}}
	}
	return s
}

// c14Build: every app has endpoints e0 and e1; calls as listed.
func c14Build(calls []c14Call, human []bool, hidden [][]bool) *c14Model {
	mod := &sysl.Module{Apps: map[string]*sysl.Application{}}
	for i, a := range c14Apps {
		app := &sysl.Application{Name: &sysl.AppName{Part: []string{a}}, Endpoints: map[string]*sysl.Endpoint{}}
		if human[i] {
			app.Attrs = c14Pat("human")
		}
		for j, e := range c14Eps {
			ep := &sysl.Endpoint{Name: e}
			if hidden[i][j] {
				ep.Attrs = c14Pat("hidden")
			}
			for _, c := range calls {
				if c.src == i && c.sep == j {
					ep.Stmt = append(ep.Stmt, c14Wrap(c.kind, c14CallStmt(c14Apps[c.dst], c14Eps[c.dep])))
				}
			}
			app.Endpoints[e] = ep
		}
		mod.Apps[a] = app
	}
	return &c14Model{mod: mod, calls: calls, human: human, hidden: hidden}
}

func c14Listed(listed []bool) []*sysl.Statement {
	var stmts []*sysl.Statement
	for i, l := range listed {
		if l {
			stmts = append(stmts, &sysl.Statement{Stmt: &sysl.Statement_Action{Action: &sysl.Action{Action: c14Apps[i]}}})
		}
	}
	return stmts
}

func c14Set(in []bool) syslutil.StrSet {
	var names []string
	for i, b := range in {
		if b {
			names = append(names, c14Apps[i])
		}
	}
	return syslutil.MakeStrSet(names...)
}

func c14Idx(name string, names []string) int {
	for i, n := range names {
		if n == name {
			return i
		}
	}
	return -1
}

// soundness of every drawn dependency + no duplicates
func c14Sound(m *c14Model, b *IntsBuilder, excluded []bool) {
	for i, d := range b.DepsOut {
		s, se := c14Idx(d.Self.Name, c14Apps), c14Idx(d.Self.Endpoint, c14Eps)
		t, te := c14Idx(d.Target.Name, c14Apps), c14Idx(d.Target.Endpoint, c14Eps)
		found := false
		for _, c := range m.calls {
			if c.src == s && c.sep == se && c.dst == t && c.dep == te {
				found = true
			}
		}
		nd.Assert("sound:arrow-has-a-call-statement", found)
		if s >= 0 && t >= 0 {
			nd.Assert("sound:arrow-touches-no-excluded-app", !excluded[s] && !excluded[t])
			nd.Assert("sound:no-arrow-to-human-or-hidden", !m.human[t] && (te < 0 || !m.hidden[t][te]))
		}
		for j := 0; j < i; j++ {
			nd.Assert("sound:no-duplicate-arrows", !(b.DepsOut[j].Self == d.Self && b.DepsOut[j].Target == d.Target))
		}
	}
}

// completeness: every call from a listed app to a different, non-excluded, non-human app
// whose endpoint is not hidden is drawn
func c14Complete(m *c14Model, b *IntsBuilder, listed, excluded []bool) {
	for _, c := range m.calls {
		if !listed[c.src] || m.human[c.src] || c.dst == c.src || excluded[c.dst] || m.human[c.dst] || m.hidden[c.dst][c.dep] {
			continue
		}
		found := false
		for _, d := range b.DepsOut {
			if d.Self.Name == c14Apps[c.src] && d.Self.Endpoint == c14Eps[c.sep] && d.Target.Name == c14Apps[c.dst] && d.Target.Endpoint == c14Eps[c.dep] {
				found = true
			}
		}
		nd.Assert("complete:call-from-listed-app-drawn", found)
	}
}

func c14Run(m *c14Model, listed, excluded, pass []bool) *IntsBuilder {
	var b *IntsBuilder
	failed, msg := nd.Recovered(func() {
		b = MakeBuilderfromStmt(m.mod, c14Listed(listed), c14Set(excluded), c14Set(pass))
	})
	_ = msg
	nd.Assert("terminates-without-crash", !failed)
	return b
}

func c14NoFlags() ([]bool, [][]bool) {
	return []bool{false, false, false}, [][]bool{{false, false}, {false, false}, {false, false}}
}

// H1: arbitrary calls between three apps; A listed, B listed or not, C excluded or not.
//
//verif:shard-quick 8 4
//verif:shard-thorough 16 6
func Harness_C14_CallGraph() {
	slots := [][2]int{{0, 0}, {0, 1}, {1, 0}, {2, 0}}
	if nd.Thorough() {
		slots = append(slots, [2]int{1, 1})
	}
	var calls []c14Call
	for k, s := range slots {
		tag := "call" + string(rune('0'+k))
		if !nd.Bool(tag) {
			continue
		}
		calls = append(calls, c14Call{src: s[0], sep: s[1], dst: nd.IntRange(tag+".app", 0, 2), dep: nd.IntRange(tag+".ep", 0, 1)})
	}
	human, hidden := c14NoFlags()
	m := c14Build(calls, human, hidden)
	listed := []bool{true, nd.Bool("B-listed"), false}
	excluded := []bool{false, false, nd.Bool("C-excluded")}
	b := c14Run(m, listed, excluded, []bool{false, false, false})
	if b == nil {
		return
	}
	c14Sound(m, b, excluded)
	c14Complete(m, b, listed, excluded)
}

// H2: calls nested in every statement kind, two levels deep, are found.
func Harness_C14_Nesting() {
	k1 := nd.IntRange("kind-outer", 0, 6)
	k2 := nd.IntRange("kind-inner", 0, 6)
	c14ReturnFirst = nd.Bool("return-before-the-call")
	human, hidden := c14NoFlags()
	m := c14Build(nil, human, hidden)
	inner := c14Wrap(k2, c14CallStmt("B", "e1"))
	stmts := []*sysl.Statement{c14Wrap(k1, inner)}
	if nd.Bool("return-before-the-block") {
		stmts = []*sysl.Statement{{Stmt: &sysl.Statement_Ret{Ret: &sysl.Return{Payload: "first"}}}, stmts[0]}
	}
	c14ReturnFirst = false
	m.mod.Apps["A"].Endpoints["e0"].Stmt = stmts
	m.calls = []c14Call{{src: 0, sep: 0, dst: 1, dep: 1}}
	listed := []bool{true, false, false}
	none := []bool{false, false, false}
	b := c14Run(m, listed, none, none)
	if b == nil {
		return
	}
	c14Sound(m, b, none)
	c14Complete(m, b, listed, none)
}

// H3: pass-through applications, including cycles among them: terminates; the calls
// made by the pass-through endpoint that was called are drawn; everything drawn is sound.
//
//verif:shard-quick 8 4
//verif:shard-thorough 8 4
func Harness_C14_Passthrough() {
	// A.e0 -> B.e0 ; B.e0 -> (tb) ; C.e0 -> (tc)
	tb := nd.IntRange("B-calls", 0, 2)
	tc := nd.IntRange("C-calls", 0, 2)
	calls := []c14Call{{src: 0, sep: 0, dst: 1, dep: 0}, {src: 1, sep: 0, dst: tb, dep: 0}, {src: 2, sep: 0, dst: tc, dep: 0}}
	human, hidden := c14NoFlags()
	m := c14Build(calls, human, hidden)
	listed := []bool{true, false, false}
	pass := []bool{false, nd.Bool("B-passthrough"), nd.Bool("C-passthrough")}
	excluded := []bool{false, false, nd.Bool("C-excluded")}
	b := c14Run(m, listed, excluded, pass)
	if b == nil {
		return
	}
	c14Sound(m, b, excluded)
	c14Complete(m, b, listed, excluded)
	if pass[1] && tb != 1 && !excluded[tb] {
		// B is passed through: its onward call B.e0 -> tb.e0 is part of the picture
		found := false
		for _, d := range b.DepsOut {
			if d.Self.Name == "B" && d.Self.Endpoint == "e0" && d.Target.Name == c14Apps[tb] && d.Target.Endpoint == "e0" {
				found = true
			}
		}
		nd.Assert("passthrough:onward-call-drawn", found)
	}
}

// H4: human actors and hidden endpoints suppress arrows, nothing else does.
func Harness_C14_HumanHidden() {
	human := []bool{false, nd.Bool("B-human"), false}
	hidden := [][]bool{{false, false}, {nd.Bool("B.e0-hidden"), false}, {false, false}}
	calls := []c14Call{{src: 0, sep: 0, dst: 1, dep: 0}, {src: 0, sep: 1, dst: 1, dep: 1}, {src: 2, sep: 0, dst: 0, dep: 0}}
	m := c14Build(calls, human, hidden)
	listed := []bool{true, false, false}
	none := []bool{false, false, false}
	b := c14Run(m, listed, none, none)
	if b == nil {
		return
	}
	c14Sound(m, b, none)
	c14Complete(m, b, listed, none)
}

// H5: callers of listed apps are drawn unless they are excluded.
func Harness_C14_Callers() {
	// B.e0 -> A.e0, C.e1 -> A.e1 ; A listed
	calls := []c14Call{{src: 1, sep: 0, dst: 0, dep: 0}, {src: 2, sep: 1, dst: 0, dep: 1}}
	human, hidden := c14NoFlags()
	m := c14Build(calls, human, hidden)
	listed := []bool{true, false, false}
	excluded := []bool{false, nd.Bool("B-excluded"), nd.Bool("C-excluded")}
	b := c14Run(m, listed, excluded, []bool{false, false, false})
	if b == nil {
		return
	}
	c14Sound(m, b, excluded)
	for k, c := range calls {
		found := false
		for _, d := range b.DepsOut {
			if d.Self.Name == c14Apps[c.src] && d.Target.Name == "A" && d.Target.Endpoint == c14Eps[c.dep] {
				found = true
			}
		}
		if excluded[c.src] {
			nd.Assert("callers:excluded-caller-not-drawn", !found)
		} else {
			nd.Assert("callers:caller-of-listed-app-drawn", found)
		}
		_ = k
	}
}

// H4b: endpoints of the same name in two applications, each hidden or not on its own:
// hiding one of them does not hide (or reveal) its namesake.
func Harness_C14_HiddenNamesakes() {
	human := []bool{false, false, false}
	hidden := [][]bool{{false, false}, {nd.Bool("B.e0-hidden"), nd.Bool("B.e1-hidden")}, {nd.Bool("C.e0-hidden"), false}}
	calls := []c14Call{{src: 0, sep: 0, dst: 1, dep: 0}, {src: 0, sep: 1, dst: 2, dep: 0}, {src: 0, sep: 1, dst: 1, dep: 1}}
	m := c14Build(calls, human, hidden)
	listed := []bool{true, false, false}
	none := []bool{false, false, false}
	b := c14Run(m, listed, none, none)
	if b == nil {
		return
	}
	c14Sound(m, b, none)
	c14Complete(m, b, listed, none)
}
