package database

// C16 — database scripts are complete and dependency-ordered; delta scripts are sound.
// Real code executed: CreateTableDepthMap/processTableDepth/findTableDepth,
// GenerateDatabaseScriptCreate, writeCreateSQLForATable/AColumn, addConstraints,
// findAddedDeletedRetainedTables, generateDatabaseScriptModify,
// writeModifySQLForATable/AColumn, getPostgresDataTypes, isAutoIncrementAndPrimaryKey.

import (
	"strings"

	"github.com/anz-bank/sysl/pkg/sysl"
	"github.com/anz-bank/sysl/pkg/zzverif/nd"
)

var c16Tables = []string{"ta", "tb", "tc", "td"}

func c16Loc(line int) *sysl.SourceContext {
	return &sysl.SourceContext{Start: &sysl.SourceContext_Location{Line: int32(line)}}
}

func c16Patterns(ps ...string) map[string]*sysl.Attribute {
	if len(ps) == 0 {
		return nil
	}
	var elts []*sysl.Attribute
	for _, p := range ps {
		elts = append(elts, &sysl.Attribute{Attribute: &sysl.Attribute_S{S: p}})
	}
	return map[string]*sysl.Attribute{"patterns": {Attribute: &sysl.Attribute_A{A: &sysl.Attribute_Array{Elt: elts}}}}
}

func c16Prim(p sysl.Type_Primitive, line int, size int64, pats ...string) *sysl.Type {
	t := &sysl.Type{Type: &sysl.Type_Primitive_{Primitive: p}, SourceContext: c16Loc(line), Attrs: c16Patterns(pats...)}
	if size > 0 {
		t.Constraint = []*sysl.Type_Constraint{{Length: &sysl.Type_Constraint_Length{Max: size}}}
	}
	return t
}

func c16Ref(table, col string, line int, pats ...string) *sysl.Type {
	return &sysl.Type{
		Type:          &sysl.Type_TypeRef{TypeRef: &sysl.ScopedRef{Ref: &sysl.Scope{Path: []string{table, col}}}},
		SourceContext: c16Loc(line), Attrs: c16Patterns(pats...),
	}
}

func c16Table(line int, cols map[string]*sysl.Type) *sysl.Type {
	return &sysl.Type{Type: &sysl.Type_Relation_{Relation: &sysl.Type_Relation{AttrDefs: cols}}, SourceContext: c16Loc(line)}
}

func c16N() int {
	if nd.Thorough() {
		return 4
	}
	return 3
}

// c16Model: n tables; table i has a key column "id" and one column "r" that
// either is a plain value or references the key of an earlier table (acyclic),
// plus a value column "v". Source lines of tables and columns are arbitrary.
type c16M struct {
	n      int
	tables map[string]*sysl.Type
	refs   []int  // refs[i] = j: table i column r references table j (j<i), or -1
	viaR   []bool // viaR[i]: that reference targets column r of table j (itself a value or a reference) instead of its key
	tline  []int
}

func c16Model(distinctLines bool) *c16M {
	n := c16N()
	m := &c16M{n: n, tables: map[string]*sysl.Type{}, refs: make([]int, n), viaR: make([]bool, n), tline: make([]int, n)}
	for i := 0; i < n; i++ {
		tag := string(rune('0' + i))
		m.tline[i] = nd.SymRange("tline"+tag, 1, 40)
		for j := 0; j < i; j++ {
			if distinctLines {
				nd.Assume(m.tline[i] != m.tline[j])
			}
		}
		l1 := nd.SymRange("cline"+tag+"a", 1, 40)
		l2 := nd.SymRange("cline"+tag+"b", 1, 40)
		l3 := nd.SymRange("cline"+tag+"c", 1, 40)
		if distinctLines {
			nd.Assume(l1 != l2 && l2 != l3 && l1 != l3)
		}
		cols := map[string]*sysl.Type{}
		cols["id"] = c16Prim(sysl.Type_INT, l1, 0, "pk")
		m.refs[i] = nd.IntRange("ref"+tag, -1, i-1)
		if m.refs[i] >= 0 {
			m.viaR[i] = nd.Bool("ref" + tag + "-targets-column-r")
			col := "id"
			if m.viaR[i] {
				col = "r"
			}
			cols["r"] = c16Ref(c16Tables[m.refs[i]], col, l2)
		} else {
			cols["r"] = c16Prim(sysl.Type_STRING, l2, 30)
		}
		cols["v"] = c16Prim(sysl.Type_STRING, l3, 0)
		m.tables[c16Tables[i]] = c16Table(m.tline[i], cols)
	}
	return m
}

func c16CheckCreate(m *c16M, out string, suffix string) {
	// each table exactly once
	pos := make([]int, m.n)
	for i := 0; i < m.n; i++ {
		hdr := "CREATE TABLE " + c16Tables[i] + "(\n"
		nd.Assert("create:each-table-once"+suffix, strings.Count(out, hdr) == 1)
		pos[i] = strings.Index(out, hdr)
	}
	nd.Assert("create:no-extra-table"+suffix, strings.Count(out, "CREATE TABLE ") == m.n)
	for i := 0; i < m.n; i++ {
		if pos[i] < 0 {
			continue
		}
		// block of table i
		rest := out[pos[i]:]
		end := strings.Index(rest, "\n);\n")
		if end < 0 {
			nd.Assert("create:block-closed"+suffix, false)
			continue
		}
		block := rest[:end]
		nd.Assert("create:column-id-once"+suffix, strings.Count(block, "\n  id integer,") == 1)
		nd.Assert("create:column-v-once"+suffix, strings.Count(block, "\n  v varchar (50),") == 1)
		if m.refs[i] >= 0 {
			// the column has the type of the column it refers to, through any chain of references
			typ, col := "integer", "id"
			if m.viaR[i] {
				col = "r"
				j := m.refs[i]
				for m.refs[j] >= 0 && m.viaR[j] {
					j = m.refs[j]
				}
				if m.refs[j] < 0 {
					typ = "varchar (30)"
				}
			}
			nd.Assert("create:reference-column-has-the-type-of-its-target"+suffix, strings.Count(block, "\n  r "+typ+",") == 1)
			fk := "CONSTRAINT " + strings.ToUpper(c16Tables[i]) + "_R_FK FOREIGN KEY(r) REFERENCES " + c16Tables[m.refs[i]] + " (" + col + ")"
			nd.Assert("create:foreign-key"+suffix, strings.Count(block, fk) == 1)
			nd.Assert("create:referenced-table-first"+suffix, pos[m.refs[i]] >= 0 && pos[m.refs[i]] < pos[i])
		} else {
			nd.Assert("create:column-r-once"+suffix, strings.Count(block, "\n  r varchar (30),") == 1)
			nd.Assert("create:no-foreign-key"+suffix, strings.Count(block, "FOREIGN KEY") == 0)
		}
		nd.Assert("create:primary-key"+suffix, strings.Count(block, "CONSTRAINT "+strings.ToUpper(c16Tables[i])+"_PK PRIMARY KEY(id)") == 1)
	}
}

// creation script when source lines may coincide (tables from two files that
// start on the same line; columns are always on distinct lines of one file)
//
//verif:shard-quick 16 12
//verif:shard-thorough 16 14
func Harness_C16_Create() {
	m := c16Model(false)
	v := MakeDatabaseScriptView("t", nil)
	out := v.GenerateDatabaseScriptCreate(m.tables, "postgres", "App")
	c16CheckCreate(m, out, "")
}

// ---- delta ----

// column states: 0 absent, 1 int, 2 string(50 default), 3 string(100), 4 reference to tb.id
func c16Col(state int, line int, pk bool) *sysl.Type {
	var pats []string
	if pk {
		pats = []string{"pk"}
	}
	switch state {
	case 1:
		return c16Prim(sysl.Type_INT, line, 0, pats...)
	case 2:
		return c16Prim(sysl.Type_STRING, line, 0, pats...)
	case 3:
		return c16Prim(sysl.Type_STRING, line, 100, pats...)
	case 4:
		return c16Ref("tb", "id", line, pats...)
	}
	return nil
}

func c16TypeName(state int) string {
	switch state {
	case 1, 4:
		return "integer"
	case 2:
		return "varchar (50)"
	case 3:
		return "varchar (100)"
	}
	return ""
}

// Delta between two versions of table ta (columns id, x, y) next to an
// unchanged table tb: statement-level soundness of the emitted DDL.
//
//verif:shard-quick 8 4
//verif:shard-thorough 8 4
func Harness_C16_Delta() {
	names := []string{"x", "y"}
	olds := make([]int, 2)
	news := make([]int, 2)
	pkOld := make([]bool, 2)
	pkNew := make([]bool, 2)
	// the referenced key tb.id is an int in the new version; in the old version it may have
	// been a string (then a column referring to it was a varchar (50))
	tbWasString := nd.Bool("referenced-key-was-a-string")
	tbCols := func(old bool) map[string]*sysl.Type {
		if old && tbWasString {
			return map[string]*sysl.Type{"id": c16Prim(sysl.Type_STRING, 2, 0, "pk")}
		}
		return map[string]*sysl.Type{"id": c16Prim(sysl.Type_INT, 2, 0, "pk")}
	}
	oldType := func(state int) string {
		if state == 4 && tbWasString {
			return "varchar (50)"
		}
		return c16TypeName(state)
	}
	oldCols := map[string]*sysl.Type{"id": c16Prim(sysl.Type_INT, 11, 0, "pk")}
	newCols := map[string]*sysl.Type{"id": c16Prim(sysl.Type_INT, 11, 0, "pk")}
	for k, nm := range names {
		olds[k] = nd.IntRange("old."+nm, 0, 4)
		news[k] = nd.IntRange("new."+nm, 0, 4)
		pkOld[k] = nd.Bool("pkold." + nm)
		pkNew[k] = nd.Bool("pknew." + nm)
		if c := c16Col(olds[k], 12+k, pkOld[k]); c != nil {
			oldCols[nm] = c
		}
		if c := c16Col(news[k], 12+k, pkNew[k]); c != nil {
			newCols[nm] = c
		}
		// a column that stays a reference while its target is re-typed is not examined here
		nd.Assume(!(tbWasString && olds[k] == 4 && news[k] == 4))
	}
	oldApp := &sysl.Application{Types: map[string]*sysl.Type{"tb": c16Table(1, tbCols(true)), "ta": c16Table(10, oldCols)}}
	newApp := &sysl.Application{Types: map[string]*sysl.Type{"tb": c16Table(1, tbCols(false)), "ta": c16Table(10, newCols)}}
	v := MakeDatabaseScriptView("t", nil)
	outs := v.ProcessModSysls(map[string]*sysl.Application{"App": oldApp}, map[string]*sysl.Application{"App": newApp},
		[]string{"App"}, "out", "postgres")
	nd.Assert("delta:one-output", len(outs) == 1)
	if len(outs) != 1 {
		return
	}
	out := outs[0].content
	nd.Assert("delta:no-create-for-retained", strings.Count(out, "CREATE TABLE") == 0)
	same := !tbWasString
	pkChanged := false
	for k, nm := range names {
		o, n := olds[k], news[k]
		po := pkOld[k] && o != 0
		pn := pkNew[k] && n != 0
		if o != n || po != pn {
			same = false
		}
		if po != pn {
			pkChanged = true
		}
		drop := "ALTER TABLE ta DROP COLUMN " + nm + ";\n"
		add := "ALTER TABLE ta ADD COLUMN " + nm + " "
		retype := "ALTER TABLE ta ALTER COLUMN " + nm + " TYPE "
		addFK := "FOREIGN KEY(" + nm + ") REFERENCES tb"
		dropFK := "ALTER TABLE ta DROP CONSTRAINT TA_" + strings.ToUpper(nm) + "_FK;\n"
		switch {
		case o != 0 && n == 0:
			nd.Assert("delta:removed-column-dropped", strings.Count(out, drop) == 1)
			nd.Assert("delta:removed-column-not-added", strings.Count(out, add) == 0)
		case o == 0 && n != 0:
			nd.Assert("delta:added-column-added", strings.Count(out, add+c16TypeName(n)+";\n") == 1)
			nd.Assert("delta:added-column-not-dropped", strings.Count(out, drop) == 0)
			if n == 4 {
				nd.Assert("delta:added-reference-constrained", strings.Count(out, addFK) == 1)
			}
		case o == 0 && n == 0:
			nd.Assert("delta:absent-column-untouched", !strings.Contains(out, " "+nm+" ") && !strings.Contains(out, " "+nm+";"))
		default:
			nd.Assert("delta:retained-column-not-dropped", strings.Count(out, drop) == 0 && strings.Count(out, add) == 0)
			if oldType(o) != c16TypeName(n) {
				nd.Assert("delta:type-change-altered", strings.Count(out, retype+c16TypeName(n)+";\n") == 1)
			} else if o == n {
				nd.Assert("delta:same-type-not-altered", strings.Count(out, retype) == 0)
			}
			if o != 4 && n == 4 {
				nd.Assert("delta:reference-added", strings.Count(out, addFK) == 1)
			}
			if o == 4 && n != 4 {
				nd.Assert("delta:reference-dropped", strings.Count(out, dropFK) == 1)
			}
		}
	}
	if same {
		nd.Assert("delta:identical-versions-no-ddl", !strings.Contains(out, "ALTER ") && !strings.Contains(out, "CREATE ") && !strings.Contains(out, "DROP "))
	}
	if pkChanged {
		nd.Assert("delta:key-change-rebuilds-key", strings.Count(out, "ADD CONSTRAINT TA_PK PRIMARY KEY(") == 1)
	} else {
		nd.Assert("delta:key-unchanged-untouched", strings.Count(out, "TA_PK") == 0)
	}
}

// an added table gets a full CREATE, after the tables it references
func Harness_C16_DeltaAddTable() {
	refd := nd.Bool("newTableReferences")
	tb := func() *sysl.Type {
		return c16Table(1, map[string]*sysl.Type{"id": c16Prim(sysl.Type_INT, 2, 0, "pk")})
	}
	cols := map[string]*sysl.Type{"id": c16Prim(sysl.Type_INT, 11, 0, "pk")}
	if refd {
		cols["r"] = c16Ref("tb", "id", 12)
	}
	oldApp := &sysl.Application{Types: map[string]*sysl.Type{"tb": tb()}}
	newApp := &sysl.Application{Types: map[string]*sysl.Type{"tc": c16Table(10, cols), "tb": tb()}}
	v := MakeDatabaseScriptView("t", nil)
	outs := v.ProcessModSysls(map[string]*sysl.Application{"App": oldApp}, map[string]*sysl.Application{"App": newApp},
		[]string{"App"}, "out", "postgres")
	nd.Assert("delta:one-output", len(outs) == 1)
	out := outs[0].content
	nd.Assert("delta:added-table-created", strings.Count(out, "CREATE TABLE tc(\n") == 1)
	nd.Assert("delta:retained-table-not-recreated", strings.Count(out, "CREATE TABLE tb(") == 0)
	if refd {
		nd.Assert("delta:added-table-reference-typed", strings.Count(out, "\n  r integer,") == 1)
	}
}

// Creation script for tables with TWO reference columns (r and s) that may point at
// tables of different depth: every referenced table is defined first, whichever column
// is visited last, and each reference gets its foreign key.
//
//verif:shard-quick 4 4
//verif:shard-thorough 8 8
func Harness_C16_CreateTwoReferences() {
	n := c16N()
	tables := map[string]*sysl.Type{}
	refR := make([]int, n)
	refS := make([]int, n)
	for i := 0; i < n; i++ {
		tag := string(rune('0' + i))
		tl := nd.SymRange("tline"+tag, 1, 40)
		cols := map[string]*sysl.Type{}
		cols["id"] = c16Prim(sysl.Type_INT, 1, 0, "pk")
		refR[i] = nd.IntRange("refr"+tag, -1, i-1)
		refS[i] = nd.IntRange("refs"+tag, -1, i-1)
		if refR[i] >= 0 {
			cols["r"] = c16Ref(c16Tables[refR[i]], "id", 2)
		} else {
			cols["r"] = c16Prim(sysl.Type_STRING, 2, 30)
		}
		if refS[i] >= 0 {
			cols["s"] = c16Ref(c16Tables[refS[i]], "id", 3)
		} else {
			cols["s"] = c16Prim(sysl.Type_STRING, 3, 30)
		}
		cols["v"] = c16Prim(sysl.Type_STRING, 4, 0)
		tables[c16Tables[i]] = c16Table(tl, cols)
	}
	v := MakeDatabaseScriptView("t", nil)
	out := v.GenerateDatabaseScriptCreate(tables, "postgres", "App")
	pos := make([]int, n)
	for i := 0; i < n; i++ {
		hdr := "CREATE TABLE " + c16Tables[i] + "(\n"
		nd.Assert("create2:each-table-once", strings.Count(out, hdr) == 1)
		pos[i] = strings.Index(out, hdr)
	}
	nd.Assert("create2:no-extra-table", strings.Count(out, "CREATE TABLE ") == n)
	for i := 0; i < n; i++ {
		if pos[i] < 0 {
			continue
		}
		up := strings.ToUpper(c16Tables[i])
		if refR[i] >= 0 {
			nd.Assert("create2:referenced-table-first", pos[refR[i]] >= 0 && pos[refR[i]] < pos[i])
			nd.Assert("create2:foreign-key", strings.Count(out, "CONSTRAINT "+up+"_R_FK FOREIGN KEY(r) REFERENCES "+c16Tables[refR[i]]+" (id)") == 1)
		}
		if refS[i] >= 0 {
			nd.Assert("create2:referenced-table-first", pos[refS[i]] >= 0 && pos[refS[i]] < pos[i])
			nd.Assert("create2:foreign-key", strings.Count(out, "CONSTRAINT "+up+"_S_FK FOREIGN KEY(s) REFERENCES "+c16Tables[refS[i]]+" (id)") == 1)
		}
	}
}
