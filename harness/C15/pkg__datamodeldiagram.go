package datamodeldiagram

// C15 — data-model diagrams contain every type, field and relationship.
// Real code executed: DataModelView.GenerateDataView, DrawTuple, DrawRelation,
// DrawPrimitive, DrawEnum, DrawRelationship, UniqueVarForAppName, getNames,
// syslutil.JoinAppName/JoinTypePath.

import (
	"strings"

	"github.com/anz-bank/sysl/pkg/sysl"
	"github.com/anz-bank/sysl/pkg/zzverif/nd"
)

type c15Labeler struct{}

func (c15Labeler) LabelClass(className string) string { return className }

var c15Types = []string{"T0", "T1", "T2"}

func c15Ref(target string) *sysl.Type {
	return &sysl.Type{Type: &sysl.Type_TypeRef{TypeRef: &sysl.ScopedRef{
		Context: &sysl.Scope{Appname: &sysl.AppName{Part: []string{"App"}}, Path: []string{"X"}},
		Ref:     &sysl.Scope{Path: []string{target}}}}}
}

// field kinds: 0 int, 1 string, 2 ref, 3 set of ref, 4 sequence of ref, 5 list of ref
func c15Field(kind int, target string) *sysl.Type {
	switch kind {
	case 0:
		return &sysl.Type{Type: &sysl.Type_Primitive_{Primitive: sysl.Type_INT}}
	case 1:
		return &sysl.Type{Type: &sysl.Type_Primitive_{Primitive: sysl.Type_STRING}}
	case 2:
		return c15Ref(target)
	case 3:
		return &sysl.Type{Type: &sysl.Type_Set{Set: c15Ref(target)}}
	case 4:
		return &sysl.Type{Type: &sysl.Type_Sequence{Sequence: c15Ref(target)}}
	}
	return &sysl.Type{Type: &sysl.Type_List_{List: &sysl.Type_List{Type: c15Ref(target)}}}
}

type c15Parsed struct {
	classes map[string]string   // display name -> alias
	fields  map[string][]string // display name -> field lines
	edges   map[string]int      // "src>dst" (aliases) -> count
	enums   map[string]string
	bad     bool
}

func c15Parse(out string) *c15Parsed {
	p := &c15Parsed{classes: map[string]string{}, fields: map[string][]string{}, edges: map[string]int{}, enums: map[string]string{}}
	cur := ""
	for _, line := range strings.Split(out, "\n") {
		switch {
		case strings.HasPrefix(line, "class \"") || strings.HasPrefix(line, "enum \""):
			rest := line[strings.Index(line, "\"")+1:]
			name := rest[:strings.Index(rest, "\"")]
			after := strings.TrimPrefix(rest[len(name)+1:], " as ")
			alias := strings.SplitN(after, " ", 2)[0]
			if strings.HasPrefix(line, "enum") {
				if _, dup := p.enums[name]; dup {
					p.bad = true
				}
				p.enums[name] = alias
			} else {
				if _, dup := p.classes[name]; dup {
					p.bad = true
				}
				p.classes[name] = alias
			}
			cur = name
		case line == "}":
			cur = ""
		case strings.HasPrefix(line, "+ ") && cur != "":
			p.fields[cur] = append(p.fields[cur], line)
		case strings.Contains(line, " *-- ") || strings.Contains(line, " }-- "):
			f := strings.Fields(line)
			p.edges[f[0]+">"+f[len(f)-1]]++
		}
	}
	return p
}

func c15Run(mod *sysl.Module) (string, bool) {
	var sb strings.Builder
	v := MakeDataModelView(c15Labeler{}, mod, &sb, "t", "p")
	out := ""
	failed, _ := nd.Recovered(func() {
		out = v.GenerateDataView(&DataModelParam{Mod: mod, App: mod.Apps["App"], Title: "t"})
	})
	return out, failed
}

// tuple types with primitive, reference and collection-of-reference fields;
// several references to one target, self references
//verif:shard-quick 16 4
//verif:shard-thorough 16 5
func Harness_C15_Tuples() {
	n := 2
	if nd.Thorough() {
		n = 3
	}
	kinds := make([][]int, n)
	targets := make([][]int, n)
	types := map[string]*sysl.Type{}
	for i := 0; i < n; i++ {
		attrs := map[string]*sysl.Type{}
		for j := 0; j < 2; j++ {
			tag := "f" + string(rune('0'+i)) + string(rune('0'+j))
			k := nd.IntRange(tag+".kind", 0, 5)
			t := 0
			if k >= 2 {
				t = nd.IntRange(tag+".target", 0, n-1)
			}
			kinds[i] = append(kinds[i], k)
			targets[i] = append(targets[i], t)
			attrs["fld"+string(rune('a'+j))] = c15Field(k, c15Types[t])
		}
		types[c15Types[i]] = &sysl.Type{Type: &sysl.Type_Tuple_{Tuple: &sysl.Type_Tuple{AttrDefs: attrs}}}
	}
	mod := &sysl.Module{Apps: map[string]*sysl.Application{"App": {Name: &sysl.AppName{Part: []string{"App"}}, Types: types}}}
	out, failed := c15Run(mod)
	nd.Assert("no-crash", !failed)
	if failed {
		return
	}
	p := c15Parse(out)
	nd.Assert("classes:each-declared-once", !p.bad && len(p.classes) == n)
	total := 0
	for i := 0; i < n; i++ {
		name := "App." + c15Types[i]
		alias, ok := p.classes[name]
		nd.Assert("classes:every-type-has-a-class", ok)
		nd.Assert("fields:every-field-listed", len(p.fields[name]) == 2)
		for j, fl := range p.fields[name] {
			want := "+ fld" + string(rune('a'+j)) + " : "
			nd.Assert("fields:name", strings.HasPrefix(fl, want))
			tn := c15Types[targets[i][j]]
			switch kinds[i][j] {
			case 0:
				nd.Assert("fields:type", fl == want+"int")
			case 1:
				nd.Assert("fields:type", fl == want+"string")
			case 2:
				nd.Assert("fields:type", fl == want+"**"+tn+"**")
			case 3:
				nd.Assert("fields:type", fl == want+"**Set <"+tn+">**")
			case 4:
				nd.Assert("fields:type", fl == want+"**Sequence <"+tn+">**")
			case 5:
				nd.Assert("fields:type", fl == want+"**List <"+tn+">**")
			}
		}
		// relationship lines: one per referencing field
		for t := 0; t < n; t++ {
			cnt := 0
			for j := 0; j < 2; j++ {
				if kinds[i][j] >= 2 && targets[i][j] == t {
					cnt++
				}
			}
			got := p.edges[alias+">"+p.classes["App."+c15Types[t]]]
			nd.Assert("relationships:one-line-per-referencing-field", got == cnt)
			total += cnt
		}
	}
	sum := 0
	for _, c := range p.edges {
		sum += c
	}
	nd.Assert("relationships:nothing-else-drawn", sum == total)
}

// tables with foreign-key columns, enum and primitive alias classes
func Harness_C15_TablesEnumsAliases() {
	fk0 := nd.Bool("t1.a-references-t0")
	fk1 := nd.Bool("t1.b-references-t0")
	col := func(fk bool) *sysl.Type {
		if fk {
			return &sysl.Type{Type: &sysl.Type_TypeRef{TypeRef: &sysl.ScopedRef{Ref: &sysl.Scope{Path: []string{"R0", "id"}}}}}
		}
		return &sysl.Type{Type: &sysl.Type_Primitive_{Primitive: sysl.Type_INT}}
	}
	types := map[string]*sysl.Type{
		"R0": {Type: &sysl.Type_Relation_{Relation: &sysl.Type_Relation{AttrDefs: map[string]*sysl.Type{"id": col(false)}}}},
		"R1": {Type: &sysl.Type_Relation_{Relation: &sysl.Type_Relation{AttrDefs: map[string]*sysl.Type{"a": col(fk0), "b": col(fk1)}}}},
	}
	withEnum := nd.Bool("with-enum")
	withAlias := nd.Bool("with-alias")
	if withEnum {
		types["E"] = &sysl.Type{Type: &sysl.Type_Enum_{Enum: &sysl.Type_Enum{Items: map[string]int64{"x": 1, "y": 2}}}}
	}
	if withAlias {
		types["A"] = &sysl.Type{Type: &sysl.Type_Primitive_{Primitive: sysl.Type_STRING}}
	}
	mod := &sysl.Module{Apps: map[string]*sysl.Application{"App": {Name: &sysl.AppName{Part: []string{"App"}}, Types: types}}}
	out, failed := c15Run(mod)
	nd.Assert("no-crash", !failed)
	if failed {
		return
	}
	p := c15Parse(out)
	want := 2
	if withAlias {
		want++
	}
	nd.Assert("tables:classes", !p.bad && len(p.classes) == want && p.classes["App.R0"] != "" && p.classes["App.R1"] != "")
	if withEnum {
		nd.Assert("tables:enum-class", len(p.enums) == 1 && p.enums["App.E"] != "")
	} else {
		nd.Assert("tables:no-enum-class", len(p.enums) == 0)
	}
	if withAlias {
		nd.Assert("tables:alias-class", p.classes["App.A"] != "")
	}
	nd.Assert("tables:fields", len(p.fields["App.R0"]) == 1 && len(p.fields["App.R1"]) == 2)
	cnt := 0
	if fk0 {
		cnt++
	}
	if fk1 {
		cnt++
	}
	nd.Assert("tables:one-line-per-foreign-key", p.edges[p.classes["App.R1"]+">"+p.classes["App.R0"]] == cnt)
	sum := 0
	for _, c := range p.edges {
		sum += c
	}
	nd.Assert("tables:nothing-else-drawn", sum == cnt)
}

// per-application diagrams (%(epname) in the output name): exactly the types of the selected
// application — including a tuple nested in another ("Order.shipping") — each with its
// fields; whole-module diagrams: the types of every application
func Harness_C15_PerApplication() {
	perApp := nd.Bool("one-diagram-per-application")
	nested := nd.Bool("type-nested-in-T0")
	pick := []string{"App", "Other"}[nd.IntRange("selected-application", 0, 1)]
	prim := func() *sysl.Type { return c15Field(0, "") }
	tuple := func(attrs map[string]*sysl.Type) *sysl.Type {
		return &sysl.Type{Type: &sysl.Type_Tuple_{Tuple: &sysl.Type_Tuple{AttrDefs: attrs}}}
	}
	appTypes := map[string]*sysl.Type{
		"T0": tuple(map[string]*sysl.Type{"a": prim()}),
		"T1": tuple(map[string]*sysl.Type{"r": c15Field(2, "T0")}),
	}
	if nested {
		appTypes["T0.inner"] = tuple(map[string]*sysl.Type{"n": prim(), "back": c15Field(2, "T1")})
	}
	mod := &sysl.Module{Apps: map[string]*sysl.Application{
		"App":   {Name: &sysl.AppName{Part: []string{"App"}}, Types: appTypes},
		"Other": {Name: &sysl.AppName{Part: []string{"Other"}}, Types: map[string]*sysl.Type{"X": tuple(map[string]*sysl.Type{"x": prim()})}},
	}}
	var sb strings.Builder
	v := MakeDataModelView(c15Labeler{}, mod, &sb, "t", "p")
	out := ""
	failed, _ := nd.Recovered(func() {
		out = v.GenerateDataView(&DataModelParam{Mod: mod, App: mod.Apps[pick], Title: "t", Epname: perApp})
	})
	nd.Assert("no-crash", !failed)
	if failed {
		return
	}
	p := c15Parse(out)
	want := map[string]int{} // class -> number of fields
	if !perApp || pick == "App" {
		want["App.T0"], want["App.T1"] = 1, 1
		if nested {
			want["App.T0.inner"] = 2
		}
	}
	if !perApp || pick == "Other" {
		want["Other.X"] = 1
	}
	nd.Assert("per-application:exactly-the-classes-of-the-selection", !p.bad && len(p.classes) == len(want))
	for name, nf := range want {
		_, ok := p.classes[name]
		nd.Assert("per-application:every-type-has-a-class", ok)
		nd.Assert("per-application:every-field-listed", len(p.fields[name]) == nf)
	}
	if _, ok := want["App.T1"]; ok {
		nd.Assert("per-application:relationship-line", p.edges[p.classes["App.T1"]+">"+p.classes["App.T0"]] == 1)
		if nested {
			nd.Assert("per-application:relationship-line-from-nested-type", p.edges[p.classes["App.T0.inner"]+">"+p.classes["App.T1"]] == 1)
		}
	}
}
