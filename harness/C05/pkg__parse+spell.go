//go:build verif

// C05 (spellings) — the same file imported under different spellings (relative to the
// importing file, rooted at the project root, with ./ and ../ segments) is one file: it is
// retrieved once and contributes once. Real code executed: the whole front end
// parse.Parser.Parse — collectSpecs, extractImports, parseImports with the ANTLR pre-parse
// and EnterImport_stmt's path resolution, flattenSpecs, parseSpecs, the merge.
package parse

import (
	"context"
	"fmt"
	"path"
	"strings"

	"github.com/anz-bank/golden-retriever/retriever"
	"github.com/anz-bank/sysl/pkg/zzverif/nd"
	"github.com/spf13/afero"
)

// c05SpReader serves a project whose root is "/": like the chroot file system the sysl
// command reads through, "lib/x.sysl", "./lib/x.sysl" and "/lib/x.sysl" are one file.
type c05SpReader struct {
	afero.Fs
	files map[string]string
	reads map[string]int
	order []string
}

func c05Canon(p string) string {
	if i := strings.IndexByte(p, '@'); i >= 0 {
		p = p[:i]
	}
	return path.Clean("/" + strings.ReplaceAll(p, "\\", "/"))
}

func (r *c05SpReader) Read(ctx context.Context, p string) ([]byte, error) {
	b, _, _, err := r.ReadHashBranch(ctx, p)
	return b, err
}
func (r *c05SpReader) ReadHash(ctx context.Context, p string) ([]byte, retriever.Hash, error) {
	b, h, _, err := r.ReadHashBranch(ctx, p)
	return b, h, err
}
func (r *c05SpReader) ReadHashBranch(ctx context.Context, p string) ([]byte, retriever.Hash, string, error) {
	key := c05Canon(p)
	c, ok := r.files[key]
	if !ok {
		return nil, retriever.ZeroHash, "", fmt.Errorf("no such file %s", p)
	}
	r.reads[key]++
	r.order = append(r.order, key)
	return []byte(c), retriever.ZeroHash, "", nil
}

// every spelling of /lib/x.sysl as seen from the root file and from /lib/y.sysl, and of the
// root file as seen from /lib/y.sysl
var (
	c05XFromRoot = []string{"lib/x", "/lib/x", "./lib/x", "lib/../lib/x", "lib/x.sysl", "/lib/x.sysl"}
	c05XFromY    = []string{"x", "/lib/x", "./x", "../lib/x", "x.sysl"}
	c05AFromY    = []string{"../a", "/a", "../a.sysl"}
)

// a file imported under any mix of spellings is retrieved once and contributes once
//
//verif:shard-quick 16 3
//verif:shard-thorough 16 3
func Harness_C05_Spellings() {
	// how the root file itself is named on the command line
	rootName := []string{"a.sysl", "./a.sysl", "/a.sysl", "a"}[nd.IntRange("root-given-as", 0, 3)]
	var s1, s2, s3, back int
	if nd.Thorough() {
		s1 = nd.IntRange("root-first-spelling-of-x", 0, len(c05XFromRoot)-1)
		s2 = nd.IntRange("root-second-spelling-of-x", 0, len(c05XFromRoot)-1)
		s3 = nd.IntRange("y-spelling-of-x", 0, len(c05XFromY)-1)
		back = nd.IntRange("y-imports-root-as", 0, len(c05AFromY)) // last: not at all
	} else {
		// quick: every spelling of x with the plain root name; the other root names with the
		// plain spellings; the second root import relative or rooted only
		if rootName == "a.sysl" {
			s1 = nd.IntRange("root-first-spelling-of-x", 0, len(c05XFromRoot)-1)
			s3 = nd.IntRange("y-spelling-of-x", 0, len(c05XFromY)-1)
		}
		s2 = nd.IntRange("root-second-spelling-of-x", 0, 1)
		back = []int{0, 1, 3}[nd.IntRange("y-imports-root-as", 0, 2)]
	}
	root := "import " + c05XFromRoot[s1] + "\nimport lib/y\nimport " + c05XFromRoot[s2] + "\n" +
		"A:\n  Ep:\n    X <- Ep\n"
	y := "import " + c05XFromY[s3] + "\n"
	if back < len(c05AFromY) {
		y += "import " + c05AFromY[back] + "\n"
	}
	y += "Y:\n  Ep:\n    X <- Ep\n"
	x := "X:\n  !type Rec:\n    id <: int\n  Ep:\n    . <- Ep2\n    return ok <: Rec\n  Ep2:\n    ...\n"
	r := &c05SpReader{
		files: map[string]string{"/a.sysl": root, "/lib/y.sysl": y, "/lib/x.sysl": x},
		reads: map[string]int{},
	}
	feSetup()
	var err error
	crashed, msg := nd.Recovered(func() {
		mod, e := NewParser().Parse(rootName, r)
		err = e
		if e != nil {
			return
		}
		nd.Assert("spellings:all-three-applications", len(mod.Apps) == 3 && mod.Apps["A"] != nil && mod.Apps["Y"] != nil && mod.Apps["X"] != nil)
		xa := mod.Apps["X"]
		if xa != nil {
			ep := xa.Endpoints["Ep"]
			nd.Assert("spellings:file-contributes-once:statements", ep != nil && len(ep.Stmt) == 2)
			nd.Assert("spellings:file-contributes-once:locations", len(xa.SourceContexts) == 1)
			t := xa.Types["Rec"]
			nd.Assert("spellings:file-contributes-once:type-locations", t != nil && len(t.SourceContexts) == 1)
		}
		if a := mod.Apps["A"]; a != nil {
			nd.Assert("spellings:root-contributes-once", len(a.SourceContexts) == 1 && a.Endpoints["Ep"] != nil && len(a.Endpoints["Ep"].Stmt) == 1)
		}
	})
	nd.Note("crash: " + msg)
	nd.Assert("spellings:no-crash", !crashed)
	nd.Assert("spellings:compiles", err == nil)
	nd.Assert("spellings:x-retrieved-once", r.reads["/lib/x.sysl"] == 1)
	nd.Assert("spellings:y-retrieved-once", r.reads["/lib/y.sysl"] == 1)
	nd.Assert("spellings:root-retrieved-once", r.reads["/a.sysl"] == 1)
	nd.Assert("spellings:retrieval-order-fixed-by-text", len(r.order) == 3 && r.order[0] == "/a.sysl")
}
