package parse

// C05 (schedules) — collectSpecs under every interleaving of the concurrent retrievals.
// Real code executed: (*Parser).collectSpecs (claim under mutex, read, import extraction,
// errgroup fan-out and join), extractImports, flattenSpecs, fileNameToIndex, and
// golang.org/x/sync/errgroup on top of the executor's task model.
// parseImports (the ANTLR pre-parse of the import lines) is replaced by a table look-up
// under the executor; natively the real one runs on real import text.

import (
	"context"
	"fmt"
	"sync"
	"time"

	"github.com/anz-bank/golden-retriever/retriever"
	"github.com/anz-bank/sysl/pkg/zzverif/nd"
	"github.com/spf13/afero"
)

var c05TFiles = []string{"f0.sysl", "f1.sysl", "f2.sysl", "f3.sysl"}

type c05Reader struct {
	afero.Fs
	imports [][]int
	fail    []bool
	reads   []int
	jitter  bool
}

func (r *c05Reader) index(path string) int {
	idx := string(fileNameToIndex(path))
	for i, f := range c05TFiles {
		if idx == f || idx == "./"+f {
			return i
		}
	}
	return -1
}

func (r *c05Reader) content(i int) string {
	s := ""
	for _, t := range r.imports[i] {
		s += "import " + c05TFiles[t][:2] + c05Alias(t, " as ") + "\n"
	}
	return s + "App" + c05TFiles[i][1:2] + ":\n    ...\n"
}

func (r *c05Reader) Read(ctx context.Context, p string) ([]byte, error) {
	b, _, _, err := r.ReadHashBranch(ctx, p)
	return b, err
}
func (r *c05Reader) ReadHash(ctx context.Context, p string) ([]byte, retriever.Hash, error) {
	b, h, _, err := r.ReadHashBranch(ctx, p)
	return b, h, err
}
func (r *c05Reader) ReadHashBranch(ctx context.Context, p string) ([]byte, retriever.Hash, string, error) {
	i := r.index(p)
	if r.jitter {
		time.Sleep(time.Duration((i*7+r.reads[0]*3)%5) * 100 * time.Microsecond)
	}
	if i < 0 {
		return nil, retriever.ZeroHash, "", fmt.Errorf("no such file %s", p)
	}
	r.reads[i]++
	nd.Yield("read-end")
	if r.fail != nil && r.fail[i] {
		return nil, retriever.ZeroHash, "", fmt.Errorf("cannot read %s", c05TFiles[i])
	}
	return []byte(r.content(i)), retriever.ZeroHash, "", nil
}

var c05TImports [][]int

// c05Alias: every import of a file other than the root renames it, always to the same
// name ("import f1 as Al1"), so the consistency check on repeated imports has work to do.
func c05Alias(t int, prefix string) string {
	if t == 0 {
		return ""
	}
	return prefix + "Al" + string(rune('0'+t))
}

// c05ParseImportsStub stands in for parseImports under the executor.
func c05ParseImportsStub(parent importDef, src sourceCtxHelper, input string) ([]importDef, error) {
	i := -1
	for k, f := range c05TFiles {
		if string(fileNameToIndex(parent.filename)) == f {
			i = k
		}
	}
	var out []importDef
	if i >= 0 {
		for _, t := range c05TImports[i] {
			id := newImportDef(c05TFiles[t])
			id.appname = c05Alias(t, "")
			out = append(out, id)
		}
	}
	return out, nil
}

// c05TGraph: file i imports up to two files with arbitrary targets.
func c05TGraph(n int) [][]int {
	g := make([][]int, n)
	for i := 0; i < n; i++ {
		maxImports := 2
		if !nd.Thorough() && i > 0 {
			maxImports = 1 // quick: only the root has two imports
		}
		cnt := nd.IntRange("n"+string(rune('0'+i)), 0, maxImports)
		for j := 0; j < cnt; j++ {
			g[i] = append(g[i], nd.IntRange("i"+string(rune('0'+i))+string(rune('0'+j)), 0, n-1))
		}
	}
	return g
}

func c05Reach(g [][]int, maxDepth int) (reach []bool, order []int) {
	n := len(g)
	dist := make([]int, n)
	for i := range dist {
		dist[i] = -1
	}
	dist[0] = 0
	queue := []int{0}
	for len(queue) > 0 {
		k := queue[0]
		queue = queue[1:]
		for _, t := range g[k] {
			if dist[t] < 0 {
				dist[t] = dist[k] + 1
				queue = append(queue, t)
			}
		}
	}
	reach = make([]bool, n)
	for i := range reach {
		reach[i] = dist[i] >= 0 && (maxDepth <= 0 || dist[i] < maxDepth)
	}
	seen := make([]bool, n)
	var walk func(k int)
	walk = func(k int) {
		if seen[k] || !reach[k] {
			return
		}
		seen[k] = true
		order = append(order, k)
		for _, t := range g[k] {
			walk(t)
		}
	}
	walk(0)
	return
}

// every file of the closure is read exactly once, the retrieved set and the flattened
// order are those of the text alone — under every interleaving
//verif:shard-quick 16 5
//verif:shard-thorough 16 6
func Harness_C05_CollectSchedules() {
	n := 3
	if nd.Thorough() {
		n = 4
	}
	g := c05TGraph(n)
	c05TImports = g
	rounds := 1
	if nd.Replaying() {
		rounds = 100 // natively the Go scheduler picks; repeat with jittered reads
	} else {
		nd.TaskModel()
		nd.PreemptionBound(1)
		if nd.Thorough() {
			nd.PreemptionBound(3)
		}
		nd.Stub("github.com/anz-bank/sysl/pkg/parse.parseImports", c05ParseImportsStub)
	}
	wantReach, wantOrder := c05Reach(g, 0)
	for round := 0; round < rounds; round++ {
		r := &c05Reader{imports: g, reads: make([]int, n), jitter: nd.Replaying()}
		p := NewParser()
		retrieved := retrievedList{l: map[retrievedListIndex]*fileInfo{}}
		var err error
		failed, _ := nd.Recovered(func() {
			err = p.collectSpecs(context.Background(), newImportDef(c05TFiles[0]), r, &retrieved, 0, 0)
		})
		nd.Assert("collect:no-crash-no-deadlock", !failed)
		if failed {
			return
		}
		nd.Assert("collect:succeeds", err == nil)
		for i := 0; i < n; i++ {
			if wantReach[i] {
				nd.Assert("collect:each-reachable-file-read-exactly-once", r.reads[i] == 1)
			} else {
				nd.Assert("collect:unreachable-file-never-read", r.reads[i] == 0)
			}
		}
		specs := []srcInput{}
		flattenSpecs(&specs, c05TFiles[0], &retrieved)
		nd.Assert("collect:flattened-count", len(specs) == len(wantOrder))
		for k := range wantOrder {
			if k < len(specs) {
				nd.Assert("collect:order-fixed-by-the-text", string(fileNameToIndex(specs[k].src.filename)) == c05TFiles[wantOrder[k]])
				nd.Assert("collect:content-complete", specs[k].input == r.content(wantOrder[k]))
			}
		}
	}
}

// with an import-depth limit d exactly the files nearer than d are included —
// under every interleaving
//verif:shard-quick 16 4
//verif:shard-thorough 16 5
func Harness_C05_DepthLimit() {
	n := 4
	g := make([][]int, n)
	a := nd.IntRange("root-imports-a", 1, 3)
	b := nd.IntRange("root-imports-b", 1, 3)
	g[0] = []int{a, b}
	if t := nd.IntRange("f1-imports", 0, 3); t > 1 {
		g[1] = []int{t}
	}
	if t := nd.IntRange("f2-imports", 0, 3); t == 3 || t == 1 {
		g[2] = []int{t}
	}
	d := nd.IntRange("depth-limit", 1, 3)
	c05TImports = g
	rounds := 1
	first := true
	if nd.Replaying() {
		// native replay of the interleaving that matters here: a file is claimed through a
		// longer import path before the shorter one gets to it. The verif-tag hook in
		// collectSpecs delays every depth-1 claim but the first.
		rounds = 10
		var mu sync.Mutex
		VerifYieldHook = func(point, file string, depth int) {
			if depth != 1 {
				return
			}
			mu.Lock()
			f := first
			first = false
			mu.Unlock()
			if !f {
				time.Sleep(30 * time.Millisecond)
			}
		}
		defer func() { VerifYieldHook = nil }()
	} else {
		nd.TaskModel()
		nd.PreemptionBound(1)
		if nd.Thorough() {
			nd.PreemptionBound(3)
		}
		nd.Stub("github.com/anz-bank/sysl/pkg/parse.parseImports", c05ParseImportsStub)
	}
	wantReach, _ := c05Reach(g, d)
	for round := 0; round < rounds; round++ {
		if nd.Replaying() {
			first = true
		}
		r := &c05Reader{imports: g, reads: make([]int, n), jitter: nd.Replaying()}
		p := NewParser()
		p.MaxImportDepth = d
		retrieved := retrievedList{l: map[retrievedListIndex]*fileInfo{}}
		var err error
		failed, _ := nd.Recovered(func() {
			err = p.collectSpecs(context.Background(), newImportDef(c05TFiles[0]), r, &retrieved, d, 0)
		})
		nd.Assert("depth:no-crash-no-deadlock", !failed && err == nil)
		if failed {
			return
		}
		specs := []srcInput{}
		flattenSpecs(&specs, c05TFiles[0], &retrieved)
		got := make([]bool, n)
		for _, s := range specs {
			for i, f := range c05TFiles {
				if string(fileNameToIndex(s.src.filename)) == f {
					got[i] = true
				}
			}
		}
		for i := 0; i < n; i++ {
			if wantReach[i] {
				nd.Assert("depth-limit:file-nearer-than-the-limit-is-included", got[i])
			} else {
				nd.Assert("depth-limit:file-at-or-beyond-the-limit-is-excluded", !got[i])
			}
		}
	}
}
