package parse

// C05 — import closure: each file once, cycles end, order fixed by the text.
// Real code executed: fileNameToIndex, cleanImportFilename, flattenSpecs (this file);
// collectSpecs under the task model is in pkg__parse+tasks.go.

import (
	"github.com/anz-bank/sysl/pkg/zzverif/nd"
)

// c05RefIndex: independent statement of the canonical index: backslashes are slashes,
// everything from the first '@' on is a version suffix, and a local name (one that does not
// start with "//") is reduced to its segments: empty and "." segments vanish, ".." cancels
// the segment before it (and vanishes at the root of a rooted name), a leading "/" means
// the project root like no "/" at all; nothing left is ".".
func c05RefIndex(f string) string {
	out := ""
	for i := 0; i < len(f); i++ {
		if f[i] == '@' {
			break
		}
		if f[i] == '\\' {
			out += "/"
		} else {
			out += f[i : i+1]
		}
	}
	if len(out) >= 2 && out[:2] == "//" {
		return out
	}
	rooted := len(out) > 0 && out[0] == '/'
	var st []string
	seg := ""
	flush := func() {
		switch seg {
		case "", ".":
		case "..":
			if len(st) > 0 && st[len(st)-1] != ".." {
				st = st[:len(st)-1]
			} else if !rooted {
				st = append(st, "..")
			}
		default:
			st = append(st, seg)
		}
		seg = ""
	}
	for i := 0; i < len(out); i++ {
		if out[i] == '/' {
			flush()
		} else {
			seg += out[i : i+1]
		}
	}
	flush()
	res := ""
	for i, x := range st {
		if i > 0 {
			res += "/"
		}
		res += x
	}
	if res == "" {
		return "."
	}
	return res
}

func Harness_C05_Index() {
	L := 6
	if nd.Thorough() {
		L = 8
	}
	f := nd.String("f", L)
	idx := string(fileNameToIndex(f))
	nd.Assert("index=reference", idx == c05RefIndex(f))
	nd.Assert("index-idempotent", string(fileNameToIndex(idx)) == idx)
}

// two spellings collide iff they denote the same file
func Harness_C05_IndexPair() {
	L := 3
	if nd.Thorough() {
		L = 4
	}
	f := nd.String("f", L)
	g := nd.String("g", L)
	same := fileNameToIndex(f) == fileNameToIndex(g)
	nd.Assert("same-index-iff-same-file", same == (c05RefIndex(f) == c05RefIndex(g)))
}

var c05Names = []string{"f0.sysl", "d/f1.sysl", "d/f2.sysl", "f3.sysl"}
var c05Alt = []string{"f0.sysl@v1", "d\\f1.sysl", "d/f2.sysl@main", "f3.sysl@v2"}

// c05Graph builds an arbitrary import graph over n files: each file imports
// at most two files (targets arbitrary: self loops, cycles, diamonds), each
// import spelled either canonically or with a version suffix / backslash.
func c05Graph(n int) (imports [][]int, spell [][]bool) {
	imports = make([][]int, n)
	spell = make([][]bool, n)
	for i := 0; i < n; i++ {
		cnt := nd.IntRange("n"+string(rune('0'+i)), 0, 2)
		for j := 0; j < cnt; j++ {
			tag := "i" + string(rune('0'+i)) + string(rune('0'+j))
			imports[i] = append(imports[i], nd.IntRange(tag, 0, n-1))
			if nd.Thorough() && i > 0 {
				spell[i] = append(spell[i], false) // thorough: alternative spellings only on the root's imports
			} else {
				spell[i] = append(spell[i], nd.Bool(tag+".alt"))
			}
		}
	}
	return
}

func c05Spelling(k int, alt bool) string {
	if alt {
		return c05Alt[k]
	}
	return c05Names[k]
}

func c05N() int {
	if nd.Thorough() {
		return 4
	}
	return 3
}

// flattenSpecs returns exactly the reference depth-first pre-order with
// first-visit de-duplication; every retrieved file reachable through retrieved
// files appears once; absent files (cut by the depth limit) are skipped.
//
//verif:shard-quick 16 8
//verif:shard-thorough 16 10
func Harness_C05_Flatten() {
	n := c05N()
	imports, spell := c05Graph(n)
	present := make([]bool, n)
	present[0] = true
	for i := 1; i < n; i++ {
		if nd.Thorough() && i < n-1 {
			present[i] = true // thorough: only the last file may have been cut by the depth limit
		} else {
			present[i] = nd.Bool("present" + string(rune('0'+i)))
		}
	}
	retrieved := retrievedList{l: map[retrievedListIndex]*fileInfo{}}
	for i := 0; i < n; i++ {
		if !present[i] {
			continue
		}
		fi := &fileInfo{}
		fi.src.src = newImportDef(c05Names[i])
		fi.src.input = "content of " + c05Names[i]
		for j, t := range imports[i] {
			fi.imports = append(fi.imports, newImportDef(c05Spelling(t, spell[i][j])))
		}
		retrieved.l[fileNameToIndex(c05Names[i])] = fi
	}
	specs := []srcInput{}
	flattenSpecs(&specs, c05Names[0], &retrieved)

	// reference walk
	var want []int
	seen := make([]bool, n)
	var walk func(k int)
	walk = func(k int) {
		if seen[k] || !present[k] {
			return
		}
		seen[k] = true
		want = append(want, k)
		for _, t := range imports[k] {
			walk(t)
		}
	}
	walk(0)
	nd.Assert("flatten:count", len(specs) == len(want))
	for i := range want {
		if i < len(specs) {
			nd.Assert("flatten:order", specs[i].src.filename == c05Names[want[i]])
			nd.Assert("flatten:content", specs[i].input == "content of "+c05Names[want[i]])
		}
	}
}

// the import lines of a file are found whatever version its (remote-style) name carries:
// name = path + ".sysl" + "@" + arbitrary version bytes
//
//verif:shard-quick 8 4
//verif:shard-thorough 16 5
func Harness_C05_VersionedNames() {
	L := 3
	if nd.Thorough() {
		L = 4
	}
	ver := nd.String("version", L)
	for i := 0; i < len(ver); i++ {
		c := ver[i]
		nd.Assume(c > 0x20 && c < 0x7f && c != '@')
	}
	name := "//host/org/repo/lib/a.sysl"
	if len(ver) > 0 {
		name += "@" + ver
	}
	content := "import b\n# comment\nimport c as X\nApp:\n    ...\n"
	got := extractImports(name, []byte(content))
	nd.Assert("versions:imports-of-a-versioned-file-are-followed", got.String() == "import b\nimport c as X\n")
	// the keyword may be followed by a tab (the lexer takes any white space); "importx" is not an import
	got = extractImports("a.sysl", []byte("import\tb\nimportx\nimport  c\nApp:\n    ...\n"))
	nd.Assert("versions:imports-with-a-tab-after-the-keyword-are-followed", got.String() == "import\tb\nimport  c\n")
}
