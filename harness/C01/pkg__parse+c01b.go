//go:build verif

// C01 (closures and calls) — import closures whose files are re-imported under the same,
// different or no alias, and call statements whose target exists as a simple endpoint,
// as a REST endpoint, or not at all: compilation returns a model or an error, it does not
// crash and it does not hang. Real code: the whole parse.Parser.Parse as in pkg__parse+c01.go
// (the concurrent retrieval runs in the executor's run-to-completion goroutine model, in
// which a lock left held by a goroutine that has returned is reported as a deadlock).
package parse

import (
	"github.com/anz-bank/sysl/pkg/zzverif/nd"
)

var c01Aliases = []string{"", " as X", " as Y", " as N :: X"}

func c01Alias(name string, max int) string {
	return c01Aliases[nd.IntRange(name, 0, max)]
}

// a file imported several times, each import with no alias or one of several; another file
// still to be retrieved after the repeated import
//
//verif:shard-quick 16 3
//verif:shard-thorough 16 4
func Harness_C01_ImportClosures() {
	max := 2
	if nd.Thorough() {
		max = 3
	}
	third := "c"
	if nd.Thorough() && nd.Bool("third-import-of-same-file") {
		third = "b"
	}
	root := "import b" + c01Alias("alias1", max) + "\nimport b" + c01Alias("alias2", max) + "\nimport " + third + c01Alias("alias3", max) + "\n\nApp:\n    ...\n"
	b := "B:\n    ...\n"
	if nd.Bool("b-imports-c") {
		b = "import c" + c01Alias("alias4", 1) + "\n\n" + b
	}
	c01Check("closure", map[string]string{
		"a.sysl": root,
		"b.sysl": b,
		"c.sysl": "C:\n    ...\n",
	})
}

var (
	c01Decls   = []string{"foo:\n        ...\n", "/foo:\n        GET:\n            ...\n", "/foo:\n        POST:\n            ...\n", "/foo/{id<:int}:\n        GET:\n            ...\n"}
	c01Methods = []string{"", "GET ", "POST ", "PATCH "}
	c01Targets = []string{"foo", "/foo", "/foo/{id}", "bar"}
	c01Callees = []string{".", "App", "Other", "App :: Sub"}
)

// a call statement in every combination of how the target is declared and how the call
// spells it (the linter cross-checks calls against declarations after the walk)
//
//verif:shard-quick 16 3
//verif:shard-thorough 16 4
func Harness_C01_Calls() {
	d := nd.IntRange("declared-as", 0, len(c01Decls)-1)
	m := nd.IntRange("call-method", 0, len(c01Methods)-1)
	t := nd.IntRange("call-target", 0, len(c01Targets)-1)
	c := nd.IntRange("callee", 0, len(c01Callees)-1)
	if !nd.Thorough() {
		nd.Assume(d <= 1 && m <= 2 && t <= 1 && c <= 2)
	}
	text := "App:\n    " + c01Decls[d] + "    bar2:\n        " + c01Callees[c] + " <- " + c01Methods[m] + c01Targets[t] + "\n"
	c01Check("calls", map[string]string{"a.sysl": text})
}

var (
	c01Inner = []string{"b = 1", "b = x", "let c = 1\n        b = c", "b = x -> (:\n          d = 1\n        )"}
	c01Refs  = []string{"Item.code", "Item", "Base.Item.code", "Base.Item", "Nowhere.code", "Item.nothing"}
)

// views whose transforms nest, with and without a declared type, and applications mixed
// into others whose tables refer to fields and types (resolved again for every mixer):
// the stages that run after the tree walk (type inference, reference scoping) never crash
//
//verif:shard-quick 16 3
//verif:shard-thorough 16 4
func Harness_C01_ViewsAndMixins() {
	var text string
	if nd.Bool("mixin-template") {
		ref := c01Refs[nd.IntRange("reference", 0, len(c01Refs)-1)]
		mixers := nd.IntRange("mixers", 1, 2)
		hostFirst := nd.Bool("host-sorts-first")
		base := "Base [~abstract]:\n    !type Item:\n        code <: string\n    !table Order:\n        item <: " + ref + "\n"
		host := "Shop"
		if hostFirst {
			host = "Alpha"
		}
		text = base + "\n" + host + ":\n    -|> Base\n    ep:\n        ...\n"
		if mixers == 2 {
			text += "\nZeta:\n    -|> Base\n    ep:\n        ...\n"
		}
	} else {
		typedOuter := nd.Bool("outer-transform-typed")
		typedInner := nd.Bool("inner-transform-typed")
		inner := c01Inner[nd.IntRange("inner-statements", 0, len(c01Inner)-1)]
		ot, it := "", ""
		if typedOuter {
			ot = "<Out> "
		}
		if typedInner {
			it = "<In> "
		}
		text = "App:\n  !type Out:\n    a <: In\n  !type In:\n    b <: int\n  !view Foo(x <: int) -> Out:\n    x -> " + ot + "(:\n      a = x -> " + it + "(:\n        " + inner + "\n      )\n    )\n"
	}
	c01Check("after-walk", map[string]string{"a.sysl": text})
}

var c01ImportLines = []string{"import", "import ", "import\t", "import\r", "importx", "import:", "import b c", "import  b"}

// near misses of an import line — the keyword alone, followed by a blank, a tab, a carriage
// return, a letter — as the first line, after a real import, or as the last line without a
// newline, in the root file or in an imported one
//
//verif:shard-quick 8 2
//verif:shard-thorough 8 2
func Harness_C01_ImportLines() {
	line := c01ImportLines[nd.IntRange("line", 0, len(c01ImportLines)-1)]
	where := nd.IntRange("where", 0, 2) // first line, after an import, last line without newline
	inImported := nd.Bool("in-imported-file")
	var text string
	switch where {
	case 0:
		text = line + "\nApp:\n    ...\n"
	case 1:
		text = "import c\n" + line + "\nApp:\n    ...\n"
	default:
		text = "App:\n    ...\n" + line
	}
	files := map[string]string{"a.sysl": text, "b.sysl": "B:\n    ...\n", "c.sysl": "C:\n    ...\n"}
	if inImported {
		files["a.sysl"] = "import d\nRoot:\n    ...\n"
		files["d.sysl"] = text
	}
	c01Check("import-line", files)
}
