package parse

// C01 — compilation is total: any input yields a model or an error, never a crash.
// Real code executed: the whole public pipeline parse.Parser.Parse — collectSpecs,
// extractImports, parseImports, parseSpecs, importForeign/detectFileType, the generated
// ANTLR lexer and parser with the ANTLR runtime (ATN simulation, adaptive prediction,
// error strategy), the hand-written indentation machine, the parse-tree walk with every
// listener callback reached, and post-processing — all from SSA, on source text with
// symbolic bytes in the positions named below.

import (
	"github.com/antlr/antlr4/runtime/Go/antlr"
	parser "github.com/anz-bank/sysl/pkg/grammar"
	"github.com/anz-bank/sysl/pkg/syslutil"
	"github.com/anz-bank/sysl/pkg/zzverif/nd"
)

func c01Check(label string, files map[string]string) {
	mod, err, crashed, msg := feCompile(files, "a.sysl")
	nd.Note(msg)
	nd.Assert(label+":no-crash", !crashed)
	if crashed {
		return
	}
	nd.Assert(label+":model-xor-error", (mod != nil) != (err != nil))
	if err != nil {
		if ex, ok := err.(syslutil.Exit); ok {
			nd.Assert(label+":error-has-nonzero-status", ex.Code != 0)
		}
	}
}

var c01Types = []string{"int", "int32", "int64", "float", "float32", "float64", "string", "date", "bool", "decimal", "datetime", "bytes", "any", "INT", "String"}

func c01Digits(name string, n int) string {
	d := nd.StringN(name, n)
	for i := 0; i < len(d); i++ {
		nd.Assume(d[i] >= '0' && d[i] <= '9')
	}
	return d
}

var c01QuickTypes = []string{"int", "string", "bool", "decimal", "date", "any"}

// a size or array spec, with arbitrary digits, on every primitive type, plain or
// inside set of / sequence of, optional or not
//verif:shard-quick 16 3
//verif:shard-thorough 16 4
func Harness_C01_SizeSpecs() {
	var ty, wrap, spec, opt, kind string
	if nd.Thorough() {
		ty = c01Types[nd.IntRange("type", 0, len(c01Types)-1)]
		wrap = []string{"", "set of ", "sequence of "}[nd.IntRange("wrapper", 0, 2)]
		opt = []string{"", "?"}[nd.IntRange("optional", 0, 1)]
		kind = []string{"!type", "!table"}[nd.IntRange("kind", 0, 1)]
		switch nd.IntRange("spec", 0, 5) {
		case 0:
			spec = "(" + c01Digits("d", 1) + ")"
		case 1:
			spec = "(" + c01Digits("d", 2) + "." + c01Digits("e", 1) + ")"
		case 2:
			spec = "(99999999999999999999)" // does not fit 64 bits
		case 3:
			spec = "[" + c01Digits("d", 1) + ".." + c01Digits("e", 1) + "]"
		case 4:
			spec = "(" + c01Digits("d", 1) + ".." + c01Digits("e", 1) + ")"
		case 5:
			spec = "[99999999999999999999..]"
		}
	} else {
		ty = c01QuickTypes[nd.IntRange("type", 0, len(c01QuickTypes)-1)]
		wrap = []string{"", "sequence of "}[nd.IntRange("wrapper", 0, 1)]
		kind = "!type"
		switch nd.IntRange("spec", 0, 2) {
		case 0:
			spec = "(" + c01Digits("d", 1) + ")"
		case 1:
			spec = "(99999999999999999999)" // does not fit 64 bits
		case 2:
			spec = "[" + c01Digits("d", 1) + "..]"
		}
	}
	c01Check("sizespec", map[string]string{"a.sysl": "App:\n    " + kind + " T:\n        f <: " + wrap + ty + spec + opt + "\n"})
}

func c01Printable(name string, n int) string {
	s := nd.StringN(name, n)
	for i := 0; i < len(s); i++ {
		nd.Assume(s[i] >= 0x20 && s[i] < 0x7f)
	}
	return s
}

// c01Text: quick: a '%' followed by two arbitrary printable bytes (where malformed
// escapes live); thorough: three / four arbitrary printable bytes
func c01Text(name string) string {
	if nd.Thorough() {
		return "%" + c01Printable(name, 2)
	}
	b := c01Printable(name, 1)
	switch nd.IntRange(name+".shape", 0, 1) {
	case 0:
		return "%" + b + "0"
	case 1:
		return "%0" + b
	case 2:
		return b + "%"
	}
	return "a" + b
}

// free text that the listener URL-unescapes: return payloads, call targets, actions
//verif:shard-quick 16 3
//verif:shard-thorough 16 5
func Harness_C01_FreeText() {
	t := c01Text("text")
	var body string
	nwhere := 1
	if nd.Thorough() {
		nwhere = 3
	}
	switch nd.IntRange("where", 0, nwhere) {
	case 0:
		body = "        return " + t + "\n"
	case 1:
		body = "        B <- " + t + "\n"
	case 2:
		body = "        " + t + "\n"
	case 3:
		body = "        if " + t + ":\n            ...\n"
	}
	c01Check("freetext", map[string]string{"a.sysl": "App:\n    e:\n" + body + "B:\n    x:\n        ...\n"})
}

// names with %-escapes in application, type, field and endpoint positions
//verif:shard-quick 16 3
//verif:shard-thorough 16 5
func Harness_C01_Names() {
	n := c01Text("name")
	var text string
	nwhere := 1
	if nd.Thorough() {
		nwhere = 3
	}
	switch nd.IntRange("where", 0, nwhere) {
	case 0:
		text = "A" + n + ":\n    ...\n"
	case 1:
		text = "App:\n    !type T:\n        f" + n + " <: int\n"
	case 2:
		text = "App:\n    !type T" + n + ":\n        f <: int\n"
	case 3:
		text = "App:\n    e" + n + ":\n        ...\n"
	}
	c01Check("names", map[string]string{"a.sysl": text})
}

// import statements with arbitrary path bytes (the imported file may or may not exist)
//verif:shard-quick 16 3
//verif:shard-thorough 16 5
func Harness_C01_ImportPaths() {
	p := "b" + c01Printable("path", 1)
	if nd.Thorough() {
		p = c01Printable("path", 2)
	}
	c01Check("import", map[string]string{
		"a.sysl": "import " + p + "\n\nApp:\n    ...\n",
		"b.sysl": "B:\n    ...\n",
	})
}

// enum values and annotation values
//verif:shard-quick 8 3
//verif:shard-thorough 16 4
func Harness_C01_EnumsAnnotations() {
	var text string
	switch nd.IntRange("where", 0, 2) {
	case 0:
		text = "App:\n    !enum E:\n        a : " + c01Digits("d", 1) + "\n"
	case 1:
		text = "App:\n    !enum E:\n        a : 99999999999999999999\n"
	case 2:
		n := 1
		if nd.Thorough() {
			n = 2
		}
		text = "App:\n    @k = \"\\" + c01Printable("v", n) + "\"\n    ...\n"
	}
	c01Check("values", map[string]string{"a.sysl": text})
}

// The ANTLR stage (generated lexer and parser over arbitrary bytes) is guarded by a
// recover() in parseString: whatever panic that stage raises becomes a ParseError.
// Under the executor the stage is replaced by a stub that panics or not; natively the
// verif-tag hook inside the guarded region injects the panic.
func c01PanickingParse(p *parser.SyslParser) parser.ISysl_fileContext {
	panic("injected fault in the ANTLR stage")
}

func Harness_C01_ParserStageGuard() {
	inject := nd.Bool("parser-stage-panics")
	feSetup()
	if inject {
		if nd.Replaying() {
			VerifYieldHook = func(point, file string, depth int) {
				if point == "parse" {
					panic("injected fault in the ANTLR stage")
				}
			}
			defer func() { VerifYieldHook = nil }()
		} else {
			nd.Stub("(*github.com/anz-bank/sysl/pkg/grammar.SyslParser).Sysl_file", c01PanickingParse)
		}
	}
	var err error
	var tree parser.ISysl_fileContext
	crashed, _ := nd.Recovered(func() {
		tree, err = parseString("a.sysl", &fsFileStream{antlr.NewInputStream("App:\n    ...\n"), "a.sysl"})
	})
	if inject {
		ex, isExit := err.(syslutil.Exit)
		nd.Assert("guard:parser-stage-panic-becomes-a-parse-error", !crashed && tree == nil && isExit && ex.Code == ParseError)
	} else {
		nd.Assert("guard:no-fault-no-error", !crashed && err == nil && tree != nil)
	}
}
