//go:build verif

// C07 (private recogniser state) — the mechanism that makes concurrent compilations
// independent: every lexer and parser handed out by NewThreadSafeSyslLexer /
// NewThreadSafeSyslParser owns its ATN (the antlr runtime caches follow sets inside ATN
// states while parsing), shared neither with another instance nor with the generated
// package-level one. Real code executed: both constructors, the ATN deserialiser.
// No symbolic input: a concrete run of the real constructors; what is decided is object
// identity in the resulting heap. (The data race itself is outside this technique.)
package parser

import (
	"github.com/antlr/antlr4/runtime/Go/antlr"
	"github.com/anz-bank/sysl/pkg/zzverif/nd"
)

func Harness_C07_PrivateRecogniserState() {
	in := antlr.NewInputStream("A:\n    ...\n")
	l1 := NewThreadSafeSyslLexer(in)
	l2 := NewThreadSafeSyslLexer(in)
	nd.Assert("private:lexer-atn-per-instance", l1.GetATN() != nil && l1.GetATN() != l2.GetATN() && l1.GetATN() != lexerAtn && l2.GetATN() != lexerAtn)
	ts := antlr.NewCommonTokenStream(l1, 0)
	p1 := NewThreadSafeSyslParser(ts)
	p2 := NewThreadSafeSyslParser(ts)
	nd.Assert("private:parser-atn-per-instance", p1.GetATN() != nil && p1.GetATN() != p2.GetATN() && p1.GetATN() != deserializedATN && p2.GetATN() != deserializedATN)
	// and the states inside are different objects too
	nd.Assert("private:parser-atn-states-per-instance", len(p1.GetATN().DecisionToState) > 0 && p1.GetATN().DecisionToState[0] != p2.GetATN().DecisionToState[0] &&
		p1.GetATN().DecisionToState[0] != deserializedATN.DecisionToState[0])
	DeleteLexerState(l1)
	DeleteLexerState(l2)
}
