//go:build verif

// C07 (inferred view types) — views whose transforms have no declared type get generated
// type names; the compiled model must not depend on the order in which Go iterates the
// application's view map. Real code executed: the front end up to the merged module
// (post-processing switched off by a stub), then the real (*Parser).postProcess —
// inferTypes, inferExprType, inferAnonymousType — once in insertion order and once under
// an arbitrary order of every map it ranges over. Natively: 64 compilations of the same
// text (Go's own map randomisation) must give one and the same model.
package parse

import (
	"github.com/anz-bank/sysl/pkg/sysl"
	"github.com/anz-bank/sysl/pkg/zzverif/nd"
	"google.golang.org/protobuf/proto"
)

func c07NoPostProcess(p *Parser, mod *sysl.Module) {}

func c07View(name, field, typ string) string {
	return "  !view " + name + "(number <: int) -> Some1.Type:\n" +
		"    argName -> <Some.Type> (:\n" +
		"      let a = .breeds -> <set of>(:\n" +
		"        " + field + " = -> <" + typ + ">(:\n" +
		"            x = .name\n" +
		"        )\n" +
		"      )\n" +
		"    )\n\n"
}

//verif:shard-quick 6 2
//verif:shard-thorough 6 2
func Harness_C07_InferredViewTypes() {
	n := nd.IntRange("views-with-an-untyped-transform", 1, 3)
	// view names: v1, v2, v3 — or names that differ only in letter case
	names := []string{"v1", "v2", "v3"}
	if nd.Bool("names-differ-only-in-case") {
		names = []string{"toApi", "ToApi", "TOAPI"}
	}
	text := "App:\n"
	for i := 0; i < n; i++ {
		tag := string(rune('1' + i))
		text += c07View(names[i], "f"+tag, "M.T"+tag)
	}
	if nd.Replaying() {
		var first *sysl.Module
		for r := 0; r < 64; r++ {
			mod, err, crashed, _ := feCompileText(text)
			nd.Assert("viewtypes:compiles", !crashed && err == nil && mod != nil)
			if mod == nil {
				return
			}
			if first == nil {
				first = mod
			}
			nd.Assert("viewtypes:one-generated-type-per-untyped-transform", len(mod.Apps["App"].Types) == n)
			nd.Assert("viewtypes:same-model-for-every-map-order", proto.Equal(first, mod))
		}
		return
	}
	nd.Stub("(*github.com/anz-bank/sysl/pkg/parse.Parser).postProcess", c07NoPostProcess)
	m1, err1, crashed1, _ := feCompileText(text)
	m2, err2, crashed2, _ := feCompileText(text)
	nd.Unstub("(*github.com/anz-bank/sysl/pkg/parse.Parser).postProcess")
	nd.Assert("viewtypes:compiles", !crashed1 && !crashed2 && err1 == nil && err2 == nil && m1 != nil && m2 != nil)
	if m1 == nil || m2 == nil {
		return
	}
	NewParser().postProcess(m1)
	failed, _ := nd.Recovered(func() { nd.AnyMapOrder(func() { NewParser().postProcess(m2) }) })
	nd.Assert("viewtypes:no-crash", !failed)
	nd.Assert("viewtypes:one-generated-type-per-untyped-transform", len(m1.Apps["App"].Types) == n)
	nd.Assert("viewtypes:same-model-for-every-map-order", proto.Equal(m1, m2))
}
