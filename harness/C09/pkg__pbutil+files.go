//go:build verif

// C09 (output files) — what is written to a file is exactly what the encoder produced: an
// output file that already exists (and is longer than the new output) holds nothing but the
// new output afterwards, in every encoding. Real code executed: JSONPBWithOpt,
// TextPBWithOpt, GeneratePBBinaryMessageFile and the writers behind them, against a small
// file system written for the harness (Create truncates, OpenFile honours its flags); the
// reflection-driven encoders are replaced by stubs returning a text of symbolic length.
// Natively: the real encoders and afero's in-memory file system, a larger model then a
// smaller one written to the same name, the file compared with the encoder's output.
package pbutil

import (
	"bytes"
	"os"

	"github.com/anz-bank/sysl/pkg/sysl"
	"github.com/anz-bank/sysl/pkg/zzverif/nd"
	"github.com/spf13/afero"
	"google.golang.org/protobuf/encoding/protojson"
	"google.golang.org/protobuf/encoding/prototext"
	"google.golang.org/protobuf/proto"
)

type c09Fs struct {
	afero.Fs
	files map[string][]byte
}

type c09File struct {
	afero.File
	fs   *c09Fs
	name string
	pos  int
}

func (f *c09Fs) Create(name string) (afero.File, error) {
	f.files[name] = nil
	return &c09File{fs: f, name: name}, nil
}

func (f *c09Fs) OpenFile(name string, flag int, perm os.FileMode) (afero.File, error) {
	if _, ok := f.files[name]; !ok {
		if flag&os.O_CREATE == 0 {
			return nil, os.ErrNotExist
		}
		f.files[name] = nil
	}
	if flag&os.O_TRUNC != 0 {
		f.files[name] = nil
	}
	file := &c09File{fs: f, name: name}
	if flag&os.O_APPEND != 0 {
		file.pos = len(f.files[name])
	}
	return file, nil
}

func (f *c09File) Write(p []byte) (int, error) {
	data := f.fs.files[f.name]
	for i, b := range p {
		if f.pos+i < len(data) {
			data[f.pos+i] = b
		} else {
			data = append(data, b)
		}
	}
	f.pos += len(p)
	f.fs.files[f.name] = data
	return len(p), nil
}
func (f *c09File) WriteString(s string) (int, error) { return f.Write([]byte(s)) }
func (f *c09File) Close() error                      { return nil }
func (f *c09File) Name() string                      { return f.name }
func (f *c09File) Sync() error                       { return nil }

var c09Encoded []byte

func c09StubMarshalJSON(o protojson.MarshalOptions, m proto.Message) ([]byte, error) {
	return c09Encoded, nil
}
func c09StubMarshalText(o prototext.MarshalOptions, m proto.Message) ([]byte, error) {
	return c09Encoded, nil
}
func c09StubMarshalBinary(o proto.MarshalOptions, m proto.Message) ([]byte, error) {
	return c09Encoded, nil
}

func c09Module(apps int) *sysl.Module {
	m := &sysl.Module{Apps: map[string]*sysl.Application{}}
	for i := 0; i < apps; i++ {
		n := "App" + string(rune('A'+i))
		m.Apps[n] = &sysl.Application{Name: &sysl.AppName{Part: []string{n}}, LongName: "an application with a long name"}
	}
	return m
}

func Harness_C09_OutputFileRewritten() {
	enc := nd.IntRange("encoding", 0, 2) // json, textpb, pb
	compact := nd.Bool("compact")
	write := func(fs afero.Fs, m *sysl.Module) error {
		switch enc {
		case 0:
			return JSONPBWithOpt(m, "out", fs, OutputOptions{Compact: compact})
		case 1:
			return TextPBWithOpt(m, "out", fs, OutputOptions{Compact: compact})
		}
		return GeneratePBBinaryMessageFile(m, "out", fs)
	}
	if nd.Replaying() {
		fs := afero.NewMemMapFs()
		err1 := write(fs, c09Module(4))
		small := c09Module(1)
		err2 := write(fs, small)
		got, _ := afero.ReadFile(fs, "out")
		var want bytes.Buffer
		switch enc {
		case 0:
			FJSONPBWithOpt(&want, small, OutputOptions{Compact: compact}) //nolint:errcheck
		case 1:
			FTextPBWithOpt(&want, small, OutputOptions{Compact: compact}) //nolint:errcheck
		default:
			GeneratePBBinaryMessage(&want, small) //nolint:errcheck
		}
		nd.Assert("file:holds-exactly-the-new-output", err1 == nil && err2 == nil && bytes.Equal(got, want.Bytes()))
		return
	}
	nd.Stub("(google.golang.org/protobuf/encoding/protojson.MarshalOptions).Marshal", c09StubMarshalJSON)
	nd.Stub("(google.golang.org/protobuf/encoding/prototext.MarshalOptions).Marshal", c09StubMarshalText)
	nd.Stub("(google.golang.org/protobuf/proto.MarshalOptions).Marshal", c09StubMarshalBinary)
	oldLen := nd.IntRange("bytes-already-in-the-file", 0, 6)
	newLen := nd.IntRange("bytes-of-the-new-output", 1, 4)
	existed := nd.Bool("file-exists")
	fs := &c09Fs{files: map[string][]byte{}}
	if existed {
		fs.files["out"] = []byte("OLDOLD")[:oldLen]
	}
	c09Encoded = []byte("{new")[:newLen]
	err := write(fs, c09Module(1))
	nd.Assert("file:write-succeeds", err == nil)
	nd.Assert("file:holds-exactly-the-new-output", string(fs.files["out"]) == string(c09Encoded))
}
