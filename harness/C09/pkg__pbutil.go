package pbutil

// C09 — serialised models round-trip (the Go-side kernels).
// Real code executed: fromPBContents / FromPBStringContents / FromPBByteContents (decoder
// selection by file suffix), and the JSON clean-up regular expression
// extraSpaceAfterKeyRE.ReplaceAll as used by FJSONPBWithOpt (regexp engine from SSA).
// The protobuf codecs themselves are reflection-driven and are not encoded: under the
// executor the encoder's output is modelled line by line from the strings; natively
// (replay) the same strings go through the real FJSONPBWithOpt and protojson.Unmarshal.

import (
	"bytes"
	"errors"

	"github.com/anz-bank/sysl/pkg/sysl"
	"github.com/anz-bank/sysl/pkg/zzverif/nd"
	"google.golang.org/protobuf/encoding/protojson"
	"google.golang.org/protobuf/proto"
)

// c09Esc: JSON string escaping as protojson's encoder does it (ASCII input).
func c09Esc(s string) string {
	out := ""
	for i := 0; i < len(s); i++ {
		c := s[i]
		switch {
		case c == '"':
			out += "\\\""
		case c == '\\':
			out += "\\\\"
		case c == '\n':
			out += "\\n"
		case c == '\r':
			out += "\\r"
		case c == '\t':
			out += "\\t"
		case c == '\b':
			out += "\\b"
		case c == '\f':
			out += "\\f"
		case c < 0x20:
			const hex = "0123456789abcdef"
			out += "\\u00" + hex[c>>4:c>>4+1] + hex[c&15:c&15+1]
		default:
			out += s[i : i+1]
		}
	}
	return out
}

func c09ASCII(name string, L int) string {
	s := nd.String(name, L)
	for i := 0; i < len(s); i++ {
		nd.Assume(s[i] >= 0x20 && s[i] < 0x7f) // printable ASCII (control characters are \u-escaped by the encoder)
	}
	return s
}

// c09Doc models what the multi-line protojson encoder writes for a module with one
// application named by a single part `part` (an array element on its own line) under
// map key `key`, carrying a string attribute value `val`. After every `":` the encoder
// writes one blank and, depending on its random salt, one more (extra[i]).
func c09Doc(key, part, val string, extra []bool) string {
	x := func(i int) string {
		if extra[i] {
			return " "
		}
		return ""
	}
	return "{\n" +
		" \"apps\": " + x(0) + "{\n" +
		"  \"" + c09Esc(key) + "\": " + x(1) + "{\n" +
		"   \"name\": " + x(2) + "{\n" +
		"    \"part\": " + x(3) + "[\n" +
		"     \"" + c09Esc(part) + "\"\n" +
		"    ]\n" +
		"   },\n" +
		"   \"longName\": " + x(4) + "\"" + c09Esc(val) + "\"\n" +
		"  }\n" +
		" }\n" +
		"}"
}

// The clean-up removes exactly the encoder's own extra blanks and nothing else:
// the cleaned text equals the text the encoder would have written without them.
// which: 0 the map key, 1 the array element on its own line, 2 the string value
func c09Cleanup(which int) {
	L := 4
	if nd.Thorough() || which == 1 {
		// five bytes reach backslash, quote, colon and two blanks on a line of its own
		L = 5
	}
	key, part, val := "k", "p", "v"
	switch which {
	case 0:
		key = c09ASCII("key", L)
	case 1:
		part = c09ASCII("part", L)
	default:
		val = c09ASCII("val", L)
	}
	label := []string{"json:cleanup-keeps-map-keys", "json:cleanup-keeps-array-elements", "json:cleanup-keeps-string-values"}[which]
	if nd.Replaying() {
		// native: the real encoder, clean-up and decoder
		m := &sysl.Module{Apps: map[string]*sysl.Application{key: {Name: &sysl.AppName{Part: []string{part}}, LongName: val}}}
		for try := 0; try < 64; try++ {
			var buf bytes.Buffer
			err := FJSONPBWithOpt(&buf, m, OutputOptions{})
			back := &sysl.Module{}
			if err == nil {
				err = protojson.Unmarshal(buf.Bytes(), back)
			}
			nd.Assert(label, err == nil && proto.Equal(m, back))
		}
		return
	}
	// the encoder's random blank is symbolic on the line that carries the symbolic
	// string and present on one other line (lines are independent for a (?m)^ pattern)
	extra := []bool{true, false, false, false, false}
	switch which {
	case 0:
		extra[1] = nd.Bool("extra-after-key")
	case 2:
		extra[4] = nd.Bool("extra-after-key")
	}
	raw := c09Doc(key, part, val, extra)
	want := c09Doc(key, part, val, make([]bool, 5))
	got := string(extraSpaceAfterKeyRE.ReplaceAll([]byte(raw), []byte("$1")))
	// same JSON: identical once insignificant white space (outside strings) is dropped
	nd.Assert(label, c09Canon(got) == c09Canon(want))
	// and the blank on the plain line is gone
	nd.Assert("json:cleanup-removes-the-encoders-blank", len(got) >= 12 && got[:12] == "{\n \"apps\": {")
}

// c09Canon drops white space outside JSON strings.
func c09Canon(s string) string {
	out := ""
	inStr, esc := false, false
	for i := 0; i < len(s); i++ {
		c := s[i]
		if inStr {
			out += s[i : i+1]
			switch {
			case esc:
				esc = false
			case c == '\\':
				esc = true
			case c == '"':
				inStr = false
			}
			continue
		}
		if c == ' ' || c == '\n' || c == '\t' || c == '\r' {
			continue
		}
		if c == '"' {
			inStr = true
		}
		out += s[i : i+1]
	}
	return out
}

//verif:shard-quick 8 5
//verif:shard-thorough 16 6
func Harness_C09_JSONCleanupKey() { c09Cleanup(0) }

//verif:shard-quick 16 6
//verif:shard-thorough 16 6
func Harness_C09_JSONCleanupElement() { c09Cleanup(1) }

//verif:shard-quick 8 5
//verif:shard-thorough 16 6
func Harness_C09_JSONCleanupValue() { c09Cleanup(2) }

// ---- decoder selection by file suffix ----

var c09Chosen string

func c09StubBinary(b []byte, m proto.Message) error { c09Chosen = "binary"; return nil }
func c09StubJSON(b []byte, m proto.Message) error   { c09Chosen = "json"; return nil }
func c09StubText(b []byte, m proto.Message) error   { c09Chosen = "text"; return nil }

// c09Decoder reports which decoder fromPBContents selects for path.
func c09Decoder(path string) string {
	if !nd.Replaying() {
		nd.Stub("google.golang.org/protobuf/proto.Unmarshal", c09StubBinary)
		nd.Stub("google.golang.org/protobuf/encoding/protojson.Unmarshal", c09StubJSON)
		nd.Stub("google.golang.org/protobuf/encoding/prototext.Unmarshal", c09StubText)
		c09Chosen = ""
		_, err := FromPBStringContents(path, "x")
		if err != nil {
			if errors.Is(err, ErrUnknownExtension) {
				return "unknown"
			}
			return "error"
		}
		return c09Chosen
	}
	// native: tell the real decoders apart by what they accept
	_, eJSON := FromPBStringContents(path, "{}")          // only the JSON decoder accepts this
	_, eText := FromPBStringContents(path, "apps: {}")    // only the text decoder accepts this
	_, eEmpty := FromPBByteContents(path, []byte{})       // binary and text accept the empty message
	switch {
	case errors.Is(eJSON, ErrUnknownExtension):
		return "unknown"
	case eJSON == nil && eText != nil:
		return "json"
	case eText == nil && eJSON != nil:
		return "text"
	case eEmpty == nil:
		return "binary"
	}
	return "error"
}

func c09HasSuffix(s, suf string) bool {
	return len(s) >= len(suf) && s[len(s)-len(suf):] == suf
}

// the decoder is chosen by the documented suffixes only: .pb binary, .pb.json JSON,
// .textpb text; anything else (".json" in particular) is not a compiled model
func Harness_C09_DecoderBySuffix() {
	L := 8
	if nd.Thorough() {
		L = 9
	}
	p := nd.String("path", L)
	want := "unknown"
	switch {
	case c09HasSuffix(p, ".pb.json"):
		want = "json"
	case c09HasSuffix(p, ".textpb"):
		want = "text"
	case c09HasSuffix(p, ".pb"):
		want = "binary"
	}
	nd.Assert("suffix:decoder", c09Decoder(p) == want)
}
