package parse

// C09 — importing a compiled model reproduces it: re-import decodes the model, merges it into an
// empty module and post-processes AGAIN, so post-processing must be idempotent on its own output.
// Real code executed: (*Parser).postProcess, fixParamTypeRef, fixTypeRefScope, the mixin
// copy, collectorPubSubCalls, renestTypes, injectType, subTuple, checkEndpointCalls.

import (
	"github.com/anz-bank/sysl/pkg/sysl"
	"github.com/anz-bank/sysl/pkg/zzverif/nd"
	"google.golang.org/protobuf/proto"
)

var ppApps = []string{"A", "B", "C"}
var ppTypes = []string{"T", "U", "T.N"}

var ppMode = "off"

func ppModeStub() string { return ppMode }

type ppChoice struct {
	mix     []int    // mix[i] = j: app i mixes in app j; -1 none
	has     [][]bool // has[i][k]: app i declares type ppTypes[k]
	refs    []bool   // app i's type T has a field referring to U
	paramTo []int    // app i's endpoint has a parameter of type <app paramTo[i]>.T ; -1 none
}

func ppChoose() *ppChoice {
	n := len(ppApps)
	c := &ppChoice{mix: make([]int, n), has: make([][]bool, n), refs: make([]bool, n), paramTo: make([]int, n)}
	for i := 0; i < n; i++ {
		tag := string(rune('A' + i))
		c.mix[i] = nd.IntRange("mixin."+tag, -1, n-1)
		nd.Assume(c.mix[i] != i)
		c.has[i] = make([]bool, len(ppTypes))
		for k := range ppTypes {
			// quick: every app may declare T, B may also declare the nested T.N, C may declare U
			if k == 0 || nd.Thorough() || (k == 2 && i == 1) || (k == 1 && i == 2) {
				c.has[i][k] = nd.Bool("type." + tag + "." + ppTypes[k])
			}
		}
		if nd.Thorough() || i == 0 {
			c.refs[i] = c.has[i][0] && nd.Bool("ref."+tag)
		}
		c.paramTo[i] = -1
	}
	if nd.Thorough() {
		c.paramTo[0] = nd.IntRange("param.A", -1, n-1)
	}
	return c
}

func ppBuild(c *ppChoice) *sysl.Module {
	mod := &sysl.Module{Apps: map[string]*sysl.Application{}}
	apps := make([]*sysl.Application, len(ppApps))
	for i, name := range ppApps {
		app := &sysl.Application{Name: &sysl.AppName{Part: []string{name}},
			Attrs: map[string]*sysl.Attribute{"patterns": {Attribute: &sysl.Attribute_A{A: &sysl.Attribute_Array{
				Elt: []*sysl.Attribute{{Attribute: &sysl.Attribute_S{S: "abstract"}}}}}}}}
		for k, tn := range ppTypes {
			if !c.has[i][k] {
				continue
			}
			if app.Types == nil {
				app.Types = map[string]*sysl.Type{}
			}
			attrs := map[string]*sysl.Type{"f" + name: {Type: &sysl.Type_Primitive_{Primitive: sysl.Type_INT}}}
			if k == 0 && c.refs[i] {
				attrs["r"] = &sysl.Type{Type: &sysl.Type_TypeRef{TypeRef: &sysl.ScopedRef{Ref: &sysl.Scope{Path: []string{"U"}}}}}
			}
			app.Types[tn] = &sysl.Type{Type: &sysl.Type_Tuple_{Tuple: &sysl.Type_Tuple{AttrDefs: attrs}}}
		}
		if c.paramTo[i] >= 0 {
			app.Endpoints = map[string]*sysl.Endpoint{"ep": {Name: "ep", Param: []*sysl.Param{{Name: "p", Type: &sysl.Type{
				Type: &sysl.Type_TypeRef{TypeRef: &sysl.ScopedRef{Ref: &sysl.Scope{
					Appname: &sysl.AppName{Part: []string{ppApps[c.paramTo[i]]}}, Path: []string{"T"}}}}}}}}}
		}
		apps[i] = app
		mod.Apps[name] = app
	}
	for i := range ppApps {
		if c.mix[i] >= 0 {
			apps[i].Mixin2 = []*sysl.Application{{Name: &sysl.AppName{Part: []string{ppApps[c.mix[i]]}}}}
		}
	}
	return mod
}

func ppRun(mod *sysl.Module) {
	p := NewParser()
	p.postProcess(mod)
}

// post-processing a post-processed model changes nothing
//verif:shard-quick 8 5
//verif:shard-thorough 16 7
func Harness_C09_PostProcessIdempotent() {
	c := ppChoose()
	ppMode = "off"
	if nd.Thorough() {
		ppMode = []string{"off", "retain", "move"}[nd.IntRange("renest-mode", 0, 2)]
	}
	if nd.Replaying() {
		nd.Setenv("SYSL_DEV_RENEST_FLATTENED_TYPES", ppMode)
	} else {
		nd.Stub("(github.com/anz-bank/sysl/pkg/env.Var).Value", ppModeStub)
	}
	once := ppBuild(c)
	twice := ppBuild(c)
	failed, _ := nd.Recovered(func() {
		ppRun(once)
		ppRun(twice)
		ppRun(twice)
	})
	nd.Assert("postprocess:no-crash", !failed)
	if failed {
		return
	}
	// a mixin chain i -|> j -|> k in which the mixing app i is processed before j
	// (apps are processed in name order) is completed only by a second pass
	chainEarly := false
	for i := range ppApps {
		j := c.mix[i]
		if j >= 0 && i < j && c.mix[j] >= 0 {
			chainEarly = true
		}
	}
	if chainEarly {
		nd.Assert("postprocess:idempotent:mixin-chain-whose-mixer-sorts-first", proto.Equal(once, twice))
	} else if ppMode != "off" {
		// the development switch SYSL_DEV_RENEST_FLATTENED_TYPES (thorough only)
		nd.Assert("postprocess:idempotent:renest-mode-"+ppMode, proto.Equal(once, twice))
	} else {
		nd.Assert("postprocess:idempotent", proto.Equal(once, twice))
	}
}
