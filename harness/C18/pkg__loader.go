package loader

// C18 — the loader wraps the file system at the chosen root: with an explicit root, whatever
// that root is on disk (a directory, a regular file, or absent), no access made through the
// configured file system reaches a path outside the stated root.
// Real code executed: ProjectConfiguration.ConfigureProject, syslutil.NewChrootFs and the
// ChrootFs operations, filepath.* (all from SSA).

import (
	"errors"
	"os"
	"strings"
	"time"

	"github.com/anz-bank/sysl/pkg/zzverif/nd"
	"github.com/sirupsen/logrus"
	"github.com/spf13/afero"
)

type c18Info struct {
	name string
	dir  bool
}

func (i c18Info) Name() string       { return i.name }
func (i c18Info) Size() int64        { return 0 }
func (i c18Info) Mode() os.FileMode  { return 0o644 }
func (i c18Info) ModTime() time.Time { return time.Time{} }
func (i c18Info) IsDir() bool        { return i.dir }
func (i c18Info) Sys() interface{}   { return nil }

var errC18 = errors.New("c18: no such file")

// c18LFs records every path that reaches it; the stated root is a directory (kind 0),
// a regular file (1) or absent (2); every other path is absent.
type c18LFs struct {
	root  string
	kind  int
	paths []string
}

func (r *c18LFs) rec(p string)                                   { r.paths = append(r.paths, p) }
func (r *c18LFs) Create(name string) (afero.File, error)          { r.rec(name); return nil, errC18 }
func (r *c18LFs) Mkdir(name string, perm os.FileMode) error       { r.rec(name); return nil }
func (r *c18LFs) MkdirAll(path string, perm os.FileMode) error    { r.rec(path); return nil }
func (r *c18LFs) Open(name string) (afero.File, error)            { r.rec(name); return nil, errC18 }
func (r *c18LFs) Remove(name string) error                        { r.rec(name); return nil }
func (r *c18LFs) RemoveAll(path string) error                     { r.rec(path); return nil }
func (r *c18LFs) Name() string                                    { return "c18LFs" }
func (r *c18LFs) Chmod(name string, mode os.FileMode) error       { r.rec(name); return nil }
func (r *c18LFs) Chown(name string, uid, gid int) error           { r.rec(name); return nil }
func (r *c18LFs) Chtimes(name string, a, m time.Time) error       { r.rec(name); return nil }
func (r *c18LFs) Rename(oldname, newname string) error            { r.rec(oldname); r.rec(newname); return nil }
func (r *c18LFs) OpenFile(name string, flag int, perm os.FileMode) (afero.File, error) {
	r.rec(name)
	return nil, errC18
}
func (r *c18LFs) Stat(name string) (os.FileInfo, error) {
	r.rec(name)
	if name == r.root {
		switch r.kind {
		case 0:
			return c18Info{name: name, dir: true}, nil
		case 1:
			return c18Info{name: name, dir: false}, nil
		}
	}
	return nil, errC18
}

func c18Within(root, p string) bool {
	if p != root && !strings.HasPrefix(p, root+"/") {
		return false
	}
	for _, seg := range strings.Split(p, "/") {
		if seg == ".." {
			return false
		}
	}
	return true
}

func Harness_C18_LoaderRoot() {
	root := []string{"/r", "/r/s", "/r/s/t.sysl"}[nd.IntRange("root", 0, 2)]
	fs := &c18LFs{root: root, kind: nd.IntRange("root-is-dir/file/absent", 0, 2)}
	module := []string{"m.sysl", "/m.sysl", "sub/m.sysl"}[nd.IntRange("module", 0, 2)]
	pc := NewProjectConfiguration()
	var err error
	failed, _ := nd.Recovered(func() { err = pc.ConfigureProject(root, module, fs, logrus.New()) })
	nd.Assert("loader:configure-no-crash", !failed)
	if failed || err != nil || pc.Fs == nil {
		return
	}
	before := len(fs.paths)
	name := []string{"m.sysl", "../m.sysl", "/../m.sysl", "sub/../../m.sysl", "/", "..", "/sub/../m.sysl"}[nd.IntRange("name", 0, 6)]
	switch nd.IntRange("op", 0, 3) {
	case 0:
		_, _ = pc.Fs.Open(name)
	case 1:
		_, _ = pc.Fs.Stat(name)
	case 2:
		_, _ = pc.Fs.Create(name)
	default:
		_ = pc.Fs.Remove(name)
	}
	for _, p := range fs.paths[before:] {
		nd.Assert("loader:reached-path-inside-stated-root", c18Within(root, p))
	}
}
