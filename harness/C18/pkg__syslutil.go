package syslutil

// C18 — file access never escapes the project root.
// Real code executed: ChrootFs.join / openAllowed / wrapCall / wrapCallWithData and the
// 13 operations, filepath.Join/Clean/Abs/Rel, strings.Split/TrimLeft (all from SSA).

import (
	"errors"
	"os"
	"time"

	"github.com/anz-bank/sysl/pkg/zzverif/nd"
	"github.com/spf13/afero"
)

// recFs records every path that reaches the layer beneath ChrootFs.
type recFs struct {
	paths []string
}

var errRec = errors.New("recFs: no such file")

func (r *recFs) rec(p string) { r.paths = append(r.paths, p) }

func (r *recFs) Create(name string) (afero.File, error) { r.rec(name); return nil, errRec }
func (r *recFs) Mkdir(name string, perm os.FileMode) error { r.rec(name); return nil }
func (r *recFs) MkdirAll(path string, perm os.FileMode) error { r.rec(path); return nil }
func (r *recFs) Open(name string) (afero.File, error) { r.rec(name); return nil, errRec }
func (r *recFs) OpenFile(name string, flag int, perm os.FileMode) (afero.File, error) {
	r.rec(name)
	return nil, errRec
}
func (r *recFs) Remove(name string) error    { r.rec(name); return nil }
func (r *recFs) RemoveAll(path string) error { r.rec(path); return nil }
func (r *recFs) Rename(oldname, newname string) error {
	r.rec(oldname)
	r.rec(newname)
	return nil
}
func (r *recFs) Stat(name string) (os.FileInfo, error)      { r.rec(name); return nil, errRec }
func (r *recFs) Name() string                               { return "recFs" }
func (r *recFs) Chmod(name string, mode os.FileMode) error  { r.rec(name); return nil }
func (r *recFs) Chown(name string, uid, gid int) error      { r.rec(name); return nil }
func (r *recFs) Chtimes(name string, a, m time.Time) error  { r.rec(name); return nil }

var c18Roots = []string{"/", "/r", "/r/s", "/r/s/t"}

// c18Inside: independent lexical definition of "p is inside root":
// p is root itself or root + "/" + rest, and p has no empty, "." or ".." segment.
func c18Inside(root, p string) bool {
	if len(p) == 0 || p[0] != '/' {
		return false
	}
	if root == "/" {
		if p == "/" {
			return true
		}
	} else {
		if len(p) < len(root) || p[:len(root)] != root {
			return false
		}
		if len(p) == len(root) {
			return true
		}
		if p[len(root)] != '/' {
			return false
		}
	}
	// segment check on the whole path
	seg := 0 // length of the current segment
	dots := 0
	for i := 1; i <= len(p); i++ {
		if i == len(p) || p[i] == '/' {
			if seg == 0 {
				return false // empty segment (doubled or trailing slash)
			}
			if seg == dots && seg <= 2 {
				return false // "." or ".."
			}
			seg, dots = 0, 0
			continue
		}
		seg++
		if p[i] == '.' {
			dots++
		}
	}
	return true
}

// c18Ref: reference resolution of root + "/" + name with a segment stack.
// It returns the canonical absolute path and whether it stays inside root.
func c18Ref(root, name string) (string, bool) {
	var segs []string
	push := func(s string) {
		switch s {
		case "", ".":
		case "..":
			if len(segs) > 0 {
				segs = segs[:len(segs)-1]
			}
		default:
			segs = append(segs, s)
		}
	}
	full := root + "/" + name
	start := 0
	for i := 0; i <= len(full); i++ {
		if i == len(full) || full[i] == '/' {
			push(full[start:i])
			start = i + 1
		}
	}
	out := ""
	for _, s := range segs {
		out += "/" + s
	}
	if out == "" {
		out = "/"
	}
	return out, c18Inside(root, out)
}

func c18L() int {
	if nd.Thorough() {
		return 7
	}
	return 5
}

// c18Path: an arbitrary name of at most L bytes over the path-relevant byte classes:
// '/', '.', and two ordinary bytes. (filepath.Clean/Rel/Split compare bytes only with
// '/' and '.'; any other byte behaves like an ordinary name byte.)
func c18Path(name string, L int) string {
	s := nd.String(name, L)
	for i := 0; i < len(s); i++ {
		nd.Assume(s[i] != 0)
	}
	return s
}

func c18Check(opName string, root string, rec *recFs, err error, name string) {
	want, ok := c18Ref(root, name)
	for _, p := range rec.paths {
		nd.Assert(opName+":reached-path-inside-root", c18Inside(root, p))
	}
	if ok {
		nd.Assert(opName+":inside-path-forwarded", len(rec.paths) == 1 && rec.paths[0] == want)
	} else {
		nd.Assert(opName+":outside-path-refused", err != nil && len(rec.paths) == 0)
	}
}

func c18Setup() (string, *recFs, *ChrootFs) {
	root := c18Roots[nd.IntRange("root", 0, len(c18Roots)-1)]
	rec := &recFs{}
	return root, rec, &ChrootFs{fs: rec, root: root}
}

func Harness_C18_Open() {
	root, rec, fs := c18Setup()
	name := c18Path("name", c18L())
	_, err := fs.Open(name)
	c18Check("Open", root, rec, err, name)
}

func Harness_C18_OpenFile() {
	root, rec, fs := c18Setup()
	name := c18Path("name", c18L())
	_, err := fs.OpenFile(name, os.O_RDWR, 0o644)
	c18Check("OpenFile", root, rec, err, name)
}

func Harness_C18_Create() {
	root, rec, fs := c18Setup()
	name := c18Path("name", c18L())
	_, err := fs.Create(name)
	c18Check("Create", root, rec, err, name)
}

func Harness_C18_Stat() {
	root, rec, fs := c18Setup()
	name := c18Path("name", c18L())
	_, err := fs.Stat(name)
	c18Check("Stat", root, rec, err, name)
}

func Harness_C18_Mkdir() {
	root, rec, fs := c18Setup()
	name := c18Path("name", c18L())
	err := fs.Mkdir(name, 0o755)
	c18Check("Mkdir", root, rec, err, name)
}

func Harness_C18_MkdirAll() {
	root, rec, fs := c18Setup()
	name := c18Path("name", c18L())
	err := fs.MkdirAll(name, 0o755)
	c18Check("MkdirAll", root, rec, err, name)
}

func Harness_C18_Remove() {
	root, rec, fs := c18Setup()
	name := c18Path("name", c18L())
	err := fs.Remove(name)
	c18Check("Remove", root, rec, err, name)
}

func Harness_C18_RemoveAll() {
	root, rec, fs := c18Setup()
	name := c18Path("name", c18L())
	err := fs.RemoveAll(name)
	c18Check("RemoveAll", root, rec, err, name)
}

func Harness_C18_Chmod() {
	root, rec, fs := c18Setup()
	name := c18Path("name", c18L())
	err := fs.Chmod(name, 0o600)
	c18Check("Chmod", root, rec, err, name)
}

func Harness_C18_Chown() {
	root, rec, fs := c18Setup()
	name := c18Path("name", c18L())
	err := fs.Chown(name, 1, 1)
	c18Check("Chown", root, rec, err, name)
}

func Harness_C18_Chtimes() {
	root, rec, fs := c18Setup()
	name := c18Path("name", c18L())
	err := fs.Chtimes(name, time.Time{}, time.Time{})
	c18Check("Chtimes", root, rec, err, name)
}

//verif:split-quick root=0..3 old.len=0..4
//verif:split-thorough root=0..3 old.len=0..6 new.len=0..6
func Harness_C18_Rename() {
	root, rec, fs := c18Setup()
	L := c18L() - 1
	oldn := c18Path("old", L)
	newn := c18Path("new", L)
	err := fs.Rename(oldn, newn)
	for _, p := range rec.paths {
		nd.Assert("Rename:reached-path-inside-root", c18Inside(root, p))
	}
	w1, ok1 := c18Ref(root, oldn)
	w2, ok2 := c18Ref(root, newn)
	if ok1 && ok2 {
		nd.Assert("Rename:inside-paths-forwarded", err == nil && len(rec.paths) == 2 && rec.paths[0] == w1 && rec.paths[1] == w2)
	} else {
		nd.Assert("Rename:outside-path-refused", err != nil && len(rec.paths) == 0)
	}
}

// names that climb out of the root and down again into a neighbour — "../" followed by four
// (thorough: "../../" or "../" followed by five) arbitrary bytes, which reaches directories
// whose name merely starts like the root's last segment ("/r" vs "/rx/y")
//
//verif:shard-quick 8 3
//verif:shard-thorough 16 4
func Harness_C18_Neighbours() {
	root, rec, fs := c18Setup()
	prefix := "../"
	n := 4
	if nd.Thorough() {
		n = 5
		if nd.Bool("two-levels-up") {
			prefix = "../../"
		}
	}
	name := prefix + c18Path("rest", n)
	var err error
	switch nd.IntRange("operation", 0, 4) {
	case 0:
		_, err = fs.Open(name)
		c18Check("Open", root, rec, err, name)
	case 1:
		_, err = fs.Stat(name)
		c18Check("Stat", root, rec, err, name)
	case 2:
		_, err = fs.Create(name)
		c18Check("Create", root, rec, err, name)
	case 3:
		err = fs.Remove(name)
		c18Check("Remove", root, rec, err, name)
	default:
		err = fs.MkdirAll(name, 0o755)
		c18Check("MkdirAll", root, rec, err, name)
	}
}
