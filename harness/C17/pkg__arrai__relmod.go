package relmod

// C17 — the relational model handed to transforms is a lossless image of the model.
// Real code executed: normalizeEndpoint, normalizeStatement (+ normalizeChildren closure),
// normalizeParam, normalizeType, normalizeField, normalizeApp, normalizeMixin,
// normalize*Meta, tags/annos, parseFieldType, parseRestPath.

import (
	"context"

	"github.com/anz-bank/sysl/pkg/sysl"
	"github.com/anz-bank/sysl/pkg/zzverif/nd"
)

// expected row
type c17Row struct {
	path []int
	kind string
	text string
}

func c17Action(text string) *sysl.Statement {
	return &sysl.Statement{Stmt: &sysl.Statement_Action{Action: &sysl.Action{Action: text}}}
}

// c17Wrap nests children inside statement kind k; it returns the statement and the
// expected rows for it, given its own path.
// kinds: 0 cond, 1 loop, 2 loopN, 3 foreach, 4 group, 5 alt (children in the second of two choices)
func c17Wrap(k int, children []*sysl.Statement) *sysl.Statement {
	switch k {
	case 0:
		return &sysl.Statement{Stmt: &sysl.Statement_Cond{Cond: &sysl.Cond{Test: "t", Stmt: children}}}
	case 1:
		return &sysl.Statement{Stmt: &sysl.Statement_Loop{Loop: &sysl.Loop{Mode: sysl.Loop_WHILE, Criterion: "c", Stmt: children}}}
	case 2:
		return &sysl.Statement{Stmt: &sysl.Statement_LoopN{LoopN: &sysl.LoopN{Count: 3, Stmt: children}}}
	case 3:
		return &sysl.Statement{Stmt: &sysl.Statement_Foreach{Foreach: &sysl.Foreach{Collection: "xs", Stmt: children}}}
	case 4:
		return &sysl.Statement{Stmt: &sysl.Statement_Group{Group: &sysl.Group{Title: "g", Stmt: children}}}
	}
	return &sysl.Statement{Stmt: &sysl.Statement_Alt{Alt: &sysl.Alt{Choice: []*sysl.Alt_Choice{
		{Cond: "first", Stmt: []*sysl.Statement{c17Action("in-first-choice")}},
		{Cond: "second", Stmt: children},
	}}}}
}

var c17Kinds = []string{"cond", "loop", "loopN", "foreach", "group", "alt"}

func c17Clone(p []int, more ...int) []int {
	out := make([]int, 0, len(p)+len(more))
	out = append(out, p...)
	return append(out, more...)
}

// c17Expect computes the rows the statement at `path` must produce (independent walk).
func c17Expect(stmt *sysl.Statement, path []int, out *[]c17Row) {
	kids := func(children []*sysl.Statement, base []int) {
		for i, c := range children {
			c17Expect(c, c17Clone(base, i), out)
		}
	}
	switch t := stmt.Stmt.(type) {
	case *sysl.Statement_Action:
		*out = append(*out, c17Row{path: path, kind: "action", text: t.Action.Action})
	case *sysl.Statement_Cond:
		*out = append(*out, c17Row{path: path, kind: "cond"})
		kids(t.Cond.Stmt, path)
	case *sysl.Statement_Loop:
		*out = append(*out, c17Row{path: path, kind: "loop"})
		kids(t.Loop.Stmt, path)
	case *sysl.Statement_LoopN:
		*out = append(*out, c17Row{path: path, kind: "loopN"})
		kids(t.LoopN.Stmt, path)
	case *sysl.Statement_Foreach:
		*out = append(*out, c17Row{path: path, kind: "foreach"})
		kids(t.Foreach.Stmt, path)
	case *sysl.Statement_Group:
		*out = append(*out, c17Row{path: path, kind: "group"})
		kids(t.Group.Stmt, path)
	case *sysl.Statement_Alt:
		for i, ch := range t.Alt.Choice {
			*out = append(*out, c17Row{path: c17Clone(path, i), kind: "alt", text: ch.Cond})
			kids(ch.Stmt, c17Clone(path, i))
		}
	}
}

func c17SamePath(a, b []int) bool {
	if len(a) != len(b) {
		return false
	}
	for i := range a {
		if a[i] != b[i] {
			return false
		}
	}
	return true
}

func c17KindOf(s Statement) string {
	switch {
	case s.StmtAction != "":
		return "action"
	case s.StmtCond != nil:
		return "cond"
	case s.StmtLoop != nil:
		return "loop"
	case s.StmtLoopN != nil:
		return "loopN"
	case s.StmtForeach != nil:
		return "foreach"
	case s.StmtGroup != nil:
		return "group"
	case s.StmtAlt != nil:
		return "alt"
	case s.StmtCall != nil:
		return "call"
	}
	return "?"
}

func c17Check(ep *sysl.Endpoint, suffix string) {
	app := &sysl.Application{Name: &sysl.AppName{Part: []string{"App"}}, Endpoints: map[string]*sysl.Endpoint{ep.Name: ep}}
	s := &Schema{}
	var err error
	failed, _ := nd.Recovered(func() { err = normalizeEndpoint(context.Background(), s, app, ep) })
	nd.Assert("stmt:no-crash"+suffix, !failed)
	if failed {
		return
	}
	nd.Assert("stmt:accepted"+suffix, err == nil)
	var want []c17Row
	for i, st := range ep.Stmt {
		c17Expect(st, []int{i}, &want)
	}
	nd.Assert("stmt:one-row-per-statement"+suffix, len(s.Stmt) == len(want))
	for _, w := range want {
		n := 0
		for _, r := range s.Stmt {
			if c17SamePath(r.StmtIndex, w.path) {
				n++
				nd.Assert("stmt:row-kind"+suffix, c17KindOf(r) == w.kind)
				if w.kind == "action" {
					nd.Assert("stmt:row-text"+suffix, r.StmtAction == w.text)
				}
			}
		}
		nd.Assert("stmt:position-path-present-once"+suffix, n == 1)
	}
	for i := range s.Stmt {
		for j := 0; j < i; j++ {
			nd.Assert("stmt:position-paths-distinct"+suffix, !c17SamePath(s.Stmt[i].StmtIndex, s.Stmt[j].StmtIndex))
		}
	}
}

// a spine of nested blocks of arbitrary kinds, depth 1..3, with 1..2 statements per
// block (the spine continues in the last one) and 1..3 leaves at the bottom
//verif:shard-quick 8 4
//verif:shard-thorough 16 5
func Harness_C17_StatementKinds() {
	maxD := 3
	if nd.Thorough() {
		maxD = 4
	}
	d := nd.IntRange("depth", 1, maxD)
	leaves := nd.IntRange("leaves", 1, 3)
	var body []*sysl.Statement
	for i := 0; i < leaves; i++ {
		body = append(body, c17Action("leaf"+string(rune('0'+i))))
	}
	for lvl := d - 1; lvl >= 0; lvl-- {
		k := nd.IntRange("kind"+string(rune('0'+lvl)), 0, 5)
		st := c17Wrap(k, body)
		body = nil
		if nd.Bool("sibling-before" + string(rune('0'+lvl))) {
			body = append(body, c17Action("sib"+string(rune('0'+lvl))))
		}
		body = append(body, st)
	}
	c17Check(&sysl.Endpoint{Name: "ep", Stmt: body}, "")
}

// deep nesting (depth 4..5 of groups) with 2..3 sibling leaves: position paths
// are distinct and equal to the tree positions
func Harness_C17_DeepSiblings() {
	maxD := 4
	if nd.Thorough() {
		maxD = 6
	}
	d := nd.IntRange("depth", 3, maxD)
	leaves := nd.IntRange("leaves", 2, 3)
	k := nd.IntRange("kind", 0, 5)
	var body []*sysl.Statement
	for i := 0; i < leaves; i++ {
		body = append(body, c17Action("leaf"+string(rune('0'+i))))
	}
	for lvl := d - 1; lvl >= 0; lvl-- {
		body = []*sysl.Statement{c17Wrap(k, body)}
	}
	c17Check(&sysl.Endpoint{Name: "ep", Stmt: body}, ":deep")
}

// types, fields and parameters: one row each with the same name, optionality,
// constraint and reference target
func Harness_C17_TypesFieldsParams() {
	opt0 := nd.Bool("f0.opt")
	opt1 := nd.Bool("f1.opt")
	maxLen := nd.Int("f0.max", 16)
	crossApp := nd.Bool("f1.cross-app")
	wrap := nd.IntRange("f1.wrap", 0, 2) // none, set, sequence
	f0 := &sysl.Type{Type: &sysl.Type_Primitive_{Primitive: sysl.Type_STRING}, Opt: opt0,
		Constraint: []*sysl.Type_Constraint{{Length: &sysl.Type_Constraint_Length{Max: maxLen}}}}
	ref := &sysl.Type{Type: &sysl.Type_TypeRef{TypeRef: &sysl.ScopedRef{Ref: &sysl.Scope{Path: []string{"U"}}}}}
	if crossApp {
		ref.GetTypeRef().Ref.Appname = &sysl.AppName{Part: []string{"Other"}}
	}
	f1 := ref
	switch wrap {
	case 1:
		f1 = &sysl.Type{Type: &sysl.Type_Set{Set: ref}}
	case 2:
		f1 = &sysl.Type{Type: &sysl.Type_Sequence{Sequence: ref}}
	}
	f1.Opt = opt1
	isTable := nd.Bool("T.is-table")
	var T *sysl.Type
	if isTable {
		T = &sysl.Type{Type: &sysl.Type_Relation_{Relation: &sysl.Type_Relation{AttrDefs: map[string]*sysl.Type{"f0": f0, "f1": f1},
			PrimaryKey: &sysl.Type_Relation_Key{AttrName: []string{"f0"}}}}}
	} else {
		T = &sysl.Type{Type: &sysl.Type_Tuple_{Tuple: &sysl.Type_Tuple{AttrDefs: map[string]*sysl.Type{"f0": f0, "f1": f1}}}}
	}
	E := &sysl.Type{Type: &sysl.Type_Enum_{Enum: &sysl.Type_Enum{Items: map[string]int64{"a": 1, "b": 2}}}}
	A := &sysl.Type{Type: &sysl.Type_Primitive_{Primitive: sysl.Type_INT}}
	popt := nd.Bool("param.opt")
	ep := &sysl.Endpoint{Name: "ep", Param: []*sysl.Param{{Name: "p", Type: &sysl.Type{Type: &sysl.Type_Primitive_{Primitive: sysl.Type_INT}, Opt: popt}}, {Name: "q"}}}
	// query and path parameters of a REST endpoint; a query parameter may be typed with a
	// bare name, which the compiler stores as a type without a kind but with its optional flag
	qopt := nd.Bool("query-param.opt")
	qbare := nd.Bool("query-param.bare-type-name")
	qtype := &sysl.Type{Type: &sysl.Type_Primitive_{Primitive: sysl.Type_STRING}, Opt: qopt}
	if qbare {
		qtype = &sysl.Type{Opt: qopt}
	}
	ep.RestParams = &sysl.Endpoint_RestParams{Method: sysl.Endpoint_RestParams_GET, Path: "/x/{id}",
		QueryParam: []*sysl.Endpoint_RestParams_QueryParam{{Name: "filter", Type: qtype}},
		UrlParam:   []*sysl.Endpoint_RestParams_QueryParam{{Name: "id", Type: &sysl.Type{Type: &sysl.Type_Primitive_{Primitive: sysl.Type_INT}}}}}
	app := &sysl.Application{Name: &sysl.AppName{Part: []string{"App"}},
		Types:     map[string]*sysl.Type{"T": T, "E": E, "A": A},
		Endpoints: map[string]*sysl.Endpoint{"ep": ep},
		Mixin2:    []*sysl.Application{{Name: &sysl.AppName{Part: []string{"Mix"}}}}}
	s := &Schema{}
	var err error
	failed, _ := nd.Recovered(func() { err = normalizeApp(context.Background(), s, app) })
	nd.Assert("app:no-crash", !failed)
	if failed {
		return
	}
	nd.Assert("app:accepted", err == nil)
	nd.Assert("app:one-app-row", len(s.App) == 1 && len(s.App[0].AppName) == 1 && s.App[0].AppName[0] == "App")
	nd.Assert("app:one-mixin-row", len(s.Mixin) == 1 && s.Mixin[0].MixinName[0] == "Mix")
	nd.Assert("app:one-endpoint-row", len(s.Ep) == 1 && s.Ep[0].EpName == "ep")
	nd.Assert("app:one-row-per-type", len(s.Type) == 3)
	nd.Assert("app:enum-row", len(s.Enum) == 1 && s.Enum[0].TypeName == "E" && len(s.Enum[0].EnumItems) == 2)
	nd.Assert("app:alias-row", len(s.Alias) == 1 && s.Alias[0].TypeName == "A")
	if isTable {
		nd.Assert("app:table-key-row", len(s.Table) == 1 && s.Table[0].TypeName == "T" && len(s.Table[0].Pk) == 1 && s.Table[0].Pk[0] == "f0")
	} else {
		nd.Assert("app:no-table-row", len(s.Table) == 0)
	}
	nd.Assert("app:one-row-per-field", len(s.Field) == 2)
	for _, f := range s.Field {
		nd.Assert("field:type-name", f.TypeName == "T")
		switch f.FieldName {
		case "f0":
			nd.Assert("field:optionality", f.FieldOpt == opt0)
			nd.Assert("field:length-constraint", f.FieldConstraint.Length.Max == maxLen)
			p, ok := f.FieldType.(TypePrimitive)
			nd.Assert("field:primitive-kind", ok && p.Primitive == "STRING")
		case "f1":
			nd.Assert("field:optionality", f.FieldOpt == opt1)
			ft := f.FieldType
			switch wrap {
			case 1:
				st, ok := ft.(TypeSet)
				nd.Assert("field:set-wrapper", ok)
				ft = st.Set
			case 2:
				sq, ok := ft.(TypeSequence)
				nd.Assert("field:sequence-wrapper", ok)
				ft = sq.Sequence
			}
			r, ok := ft.(TypeRef)
			nd.Assert("field:reference", ok && len(r.TypePath) == 1 && r.TypePath[0] == "U")
			if ok {
				if crossApp {
					nd.Assert("field:reference-target-app", len(r.AppName) == 1 && r.AppName[0] == "Other")
				} else {
					nd.Assert("field:reference-target-app", len(r.AppName) == 1 && r.AppName[0] == "App")
				}
			}
		default:
			nd.Assert("field:known-name", false)
		}
	}
	nd.Assert("app:one-row-per-param", len(s.Param) == 4)
	for _, p := range s.Param {
		switch p.ParamName {
		case "p":
			nd.Assert("param:optionality-and-index", p.ParamOpt == popt && p.ParamIndex == 0 && p.ParamLoc == "method")
		case "q":
			nd.Assert("param:untyped", p.ParamIndex == 1 && !p.ParamOpt)
		case "filter":
			nd.Assert("param:query-parameter-keeps-optionality", p.ParamOpt == qopt && p.ParamLoc == "query")
		case "id":
			nd.Assert("param:path-parameter", !p.ParamOpt && p.ParamLoc == "path")
		default:
			nd.Assert("param:known-name", false)
		}
	}
}
