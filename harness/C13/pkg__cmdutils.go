package cmdutils

// C13 — sequence diagrams terminate, are well-formed and follow the call tree.
// Real code executed: SequenceDiagramVisitor.Visit / visitEndpointCollection /
// visitEndpoint / visitStatment / visitCall / visitAction / visitCond ... visitAlt /
// visitRet / visitBlockStmt / visitGroupStmt / UniqueVarForAppName, EndpointElement.*,
// SequenceDiagramWriter.* (Write, Activate, Activated, Deactivate, Indent, ...),
// GetReturnPayload, FormatReturnParam, MakeAgent, GetApplicationAttrs.

import (
	"strings"

	sysl "github.com/anz-bank/sysl/pkg/sysl"
	"github.com/anz-bank/sysl/pkg/syslutil"
	"github.com/anz-bank/sysl/pkg/zzverif/nd"
)

type c13Labeler struct{}

func (c13Labeler) LabelEndpoint(p *EndpointLabelerParam) string { return p.EndpointName }
func (c13Labeler) LabelApp(appName, controls string, attrs map[string]*sysl.Attribute) string {
	return appName
}

var c13Apps = []string{"A", "B", "C"}

func c13Call(app string) *sysl.Statement {
	return &sysl.Statement{Stmt: &sysl.Statement_Call{Call: &sysl.Call{Target: &sysl.AppName{Part: []string{app}}, Endpoint: "e"}}}
}
func c13Action(t string) *sysl.Statement {
	return &sysl.Statement{Stmt: &sysl.Statement_Action{Action: &sysl.Action{Action: t}}}
}
func c13Ret(p string) *sysl.Statement {
	return &sysl.Statement{Stmt: &sysl.Statement_Ret{Ret: &sysl.Return{Payload: p}}}
}

func c13Module(bodies [][]*sysl.Statement) *sysl.Module {
	mod := &sysl.Module{Apps: map[string]*sysl.Application{}}
	for i, a := range c13Apps {
		mod.Apps[a] = &sysl.Application{Name: &sysl.AppName{Part: []string{a}},
			Endpoints: map[string]*sysl.Endpoint{"e": {Name: "e", Stmt: bodies[i]}}}
	}
	return mod
}

type c13Arrow struct{ from, to string }

// c13Generate runs the real visitor from A <- e.
func c13Generate(mod *sysl.Module) (body string, aliases map[string]string, w *SequenceDiagramWriter, failed bool, err error) {
	w = MakeSequenceDiagramWriter(false)
	v := MakeSequenceDiagramVisitor(c13Labeler{}, c13Labeler{}, w, mod, "A", "", nil)
	e := &EndpointCollectionElement{
		entries:    []*entry{{appName: "A", endpointName: "e"}},
		uptos:      syslutil.MakeStrSet("A <- e"),
		blackboxes: map[string]*Upto{},
	}
	failed, _ = nd.Recovered(func() { err = e.Accept(v) })
	aliases = map[string]string{"[": "["}
	for app, s := range v.symbols {
		aliases[s.Alias] = app
	}
	return w.Body.String(), aliases, w, failed, err
}

// c13Parse reads the body: call arrows, and checks block balance and activation discipline.
func c13Parse(body string, aliases map[string]string, suffix string) []c13Arrow {
	var arrows []c13Arrow
	active := map[string]int{}
	var blocks []string
	for _, raw := range strings.Split(body, "\n") {
		line := strings.TrimSpace(raw)
		switch {
		case line == "" || strings.HasPrefix(line, "=="):
		case strings.HasPrefix(line, "activate "):
			active[strings.TrimPrefix(line, "activate ")]++
		case strings.HasPrefix(line, "deactivate "):
			a := strings.TrimPrefix(line, "deactivate ")
			nd.Assert("wellformed:deactivate-matches-an-activate"+suffix, active[a] > 0)
			active[a]--
		case strings.HasPrefix(line, "opt ") || strings.HasPrefix(line, "loop ") || strings.HasPrefix(line, "group ") || strings.HasPrefix(line, "alt "):
			blocks = append(blocks, strings.SplitN(line, " ", 2)[0])
		case strings.HasPrefix(line, "else "):
			nd.Assert("wellformed:else-inside-alt"+suffix, len(blocks) > 0 && blocks[len(blocks)-1] == "alt")
		case line == "end":
			nd.Assert("wellformed:end-closes-a-block"+suffix, len(blocks) > 0)
			if len(blocks) > 0 {
				blocks = blocks[:len(blocks)-1]
			}
		case strings.HasPrefix(line, "note "):
		case strings.Contains(line, "<--"):
			// return arrow  sender<--agent : payload
			parts := strings.SplitN(strings.SplitN(line, " : ", 2)[0], "<--", 2)
			nd.Assert("wellformed:returning-participant-active"+suffix, active[parts[1]] > 0)
		case strings.Contains(line, " -> "):
			// self action  agent -> agent : text
			a := strings.SplitN(line, " -> ", 2)[0]
			nd.Assert("wellformed:acting-participant-active"+suffix, active[a] > 0)
		case strings.Contains(line, "->"):
			parts := strings.SplitN(strings.SplitN(line, " : ", 2)[0], "->", 2)
			if parts[0] != "[" {
				nd.Assert("wellformed:calling-participant-active"+suffix, active[parts[0]] > 0)
			}
			arrows = append(arrows, c13Arrow{aliases[parts[0]], aliases[parts[1]]})
		default:
			nd.Assert("wellformed:known-line-kind"+suffix, false)
		}
	}
	nd.Assert("wellformed:every-block-closed"+suffix, len(blocks) == 0)
	for _, n := range active {
		nd.Assert("wellformed:every-activation-ended"+suffix, n == 0)
	}
	return arrows
}

// c13Walk: reference walk of the call tree: calls in source order; an endpoint
// already in progress is shown but not expanded again.
func c13Walk(mod *sysl.Module, app string, inProgress map[string]bool, out *[]c13Arrow, budget *int) {
	var stmts func(ss []*sysl.Statement)
	stmts = func(ss []*sysl.Statement) {
		for _, s := range ss {
			switch t := s.Stmt.(type) {
			case *sysl.Statement_Call:
				tgt := t.Call.Target.Part[0]
				*out = append(*out, c13Arrow{app, tgt})
				*budget--
				if *budget < 0 {
					return
				}
				if !inProgress[tgt] && len(mod.Apps[tgt].Endpoints["e"].Stmt) > 0 {
					inProgress[tgt] = true
					c13Walk(mod, tgt, inProgress, out, budget)
					inProgress[tgt] = false
				}
			case *sysl.Statement_Cond:
				stmts(t.Cond.Stmt)
			case *sysl.Statement_Loop:
				stmts(t.Loop.Stmt)
			case *sysl.Statement_LoopN:
				stmts(t.LoopN.Stmt)
			case *sysl.Statement_Foreach:
				stmts(t.Foreach.Stmt)
			case *sysl.Statement_Group:
				stmts(t.Group.Stmt)
			case *sysl.Statement_Alt:
				for _, c := range t.Alt.Choice {
					stmts(c.Stmt)
				}
			}
		}
	}
	stmts(mod.Apps[app].Endpoints["e"].Stmt)
}

func c13Check(mod *sysl.Module, suffix string) {
	body, aliases, w, failed, err := c13Generate(mod)
	nd.Assert("terminates-without-crash"+suffix, !failed)
	if failed {
		return
	}
	nd.Assert("returns-a-diagram"+suffix, err == nil)
	arrows := c13Parse(body, aliases, suffix)
	nd.Assert("wellformed:writer-has-no-open-activation"+suffix, len(w.Active) == 0)
	want := []c13Arrow{{"[", "A"}}
	budget := 200
	inProgress := map[string]bool{"A": true}
	c13Walk(mod, "A", inProgress, &want, &budget)
	nd.Assert("arrows:count"+suffix, len(arrows) == len(want))
	for i := range want {
		if i < len(arrows) {
			nd.Assert("arrows:follow-the-call-tree-in-source-order"+suffix, arrows[i] == want[i])
		}
	}
}

// H1: every call graph over three endpoints with up to two calls each
// (cycles, self calls, repeated calls, diamonds), started from A <- e.
//verif:shard-quick 16 4
//verif:shard-thorough 16 4
func Harness_C13_CallGraph() {
	bodies := make([][]*sysl.Statement, 3)
	for i := range c13Apps {
		for j := 0; j < 2; j++ {
			t := nd.IntRange("call"+string(rune('0'+i))+string(rune('0'+j)), -1, 2)
			if t >= 0 {
				bodies[i] = append(bodies[i], c13Call(c13Apps[t]))
			}
		}
		if nd.Thorough() && nd.Bool("returns"+string(rune('0'+i))) {
			bodies[i] = append(bodies[i], c13Ret("ok"))
		}
	}
	c13Check(c13Module(bodies), "")
}

func c13Block(k int, inner []*sysl.Statement) *sysl.Statement {
	switch k {
	case 0:
		return &sysl.Statement{Stmt: &sysl.Statement_Cond{Cond: &sysl.Cond{Test: "t", Stmt: inner}}}
	case 1:
		return &sysl.Statement{Stmt: &sysl.Statement_Loop{Loop: &sysl.Loop{Mode: sysl.Loop_UNTIL, Criterion: "c", Stmt: inner}}}
	case 2:
		return &sysl.Statement{Stmt: &sysl.Statement_LoopN{LoopN: &sysl.LoopN{Count: 2, Stmt: inner}}}
	case 3:
		return &sysl.Statement{Stmt: &sysl.Statement_Foreach{Foreach: &sysl.Foreach{Collection: "xs", Stmt: inner}}}
	case 4:
		return &sysl.Statement{Stmt: &sysl.Statement_Group{Group: &sysl.Group{Title: "g", Stmt: inner}}}
	case 5: // alt, content in the first choice
		return &sysl.Statement{Stmt: &sysl.Statement_Alt{Alt: &sysl.Alt{Choice: []*sysl.Alt_Choice{
			{Cond: "x", Stmt: inner}, {Cond: "y", Stmt: []*sysl.Statement{c13Action("other")}}}}}}
	}
	// alt, content in the last choice
	return &sysl.Statement{Stmt: &sysl.Statement_Alt{Alt: &sysl.Alt{Choice: []*sysl.Alt_Choice{
		{Cond: "x", Stmt: []*sysl.Statement{c13Action("other")}}, {Cond: "y", Stmt: inner}}}}}
}

// H2: calls and returns inside (nested) blocks of every kind, as last or
// non-last statement; the callee returns a payload or not, and calls on or not.
//verif:shard-quick 8 3
//verif:shard-thorough 16 4
func Harness_C13_Nesting() {
	k1 := nd.IntRange("outer", 0, 6)
	nested := nd.Bool("two-levels")
	inner := []*sysl.Statement{}
	if nd.Bool("action-before-call") {
		inner = append(inner, c13Action("prep"))
	}
	inner = append(inner, c13Call("B"))
	if nd.Bool("second-call-in-block") {
		inner = append(inner, c13Call("C"))
	}
	blk := c13Block(k1, inner)
	if nested {
		blk = c13Block(nd.IntRange("inner", 0, 6), []*sysl.Statement{blk})
	}
	a := []*sysl.Statement{blk}
	if nd.Bool("statement-after-block") {
		a = append(a, c13Action("after"))
	}
	if nd.Bool("A-returns") {
		a = append(a, c13Ret("done"))
	}
	var b []*sysl.Statement
	if nd.Bool("B-calls-C") {
		b = append(b, c13Call("C"))
	}
	if nd.Bool("B-returns") {
		b = append(b, c13Ret("ok"))
	}
	c := []*sysl.Statement{c13Action("work")}
	c13Check(c13Module([][]*sysl.Statement{a, b, c}), ":nested")
}

// ---- re-entry: participants entered again while already active ----

var c13Eps = []string{"e", "f"}

func c13CallEp(app, ep string) *sysl.Statement {
	return &sysl.Statement{Stmt: &sysl.Statement_Call{Call: &sysl.Call{Target: &sysl.AppName{Part: []string{app}}, Endpoint: ep}}}
}

// c13WalkEp: reference walk for models with several endpoints per application.
func c13WalkEp(mod *sysl.Module, app, ep string, inProgress map[string]bool, out *[]c13Arrow, budget *int) {
	var stmts func(ss []*sysl.Statement)
	stmts = func(ss []*sysl.Statement) {
		for _, s := range ss {
			switch t := s.Stmt.(type) {
			case *sysl.Statement_Call:
				tgt, tep := t.Call.Target.Part[0], t.Call.Endpoint
				*out = append(*out, c13Arrow{app, tgt})
				*budget--
				if *budget < 0 {
					return
				}
				key := tgt + " <- " + tep
				if !inProgress[key] && len(mod.Apps[tgt].Endpoints[tep].Stmt) > 0 {
					inProgress[key] = true
					c13WalkEp(mod, tgt, tep, inProgress, out, budget)
					inProgress[key] = false
				}
			case *sysl.Statement_Cond:
				stmts(t.Cond.Stmt)
			case *sysl.Statement_Group:
				stmts(t.Group.Stmt)
			case *sysl.Statement_Alt:
				for _, c := range t.Alt.Choice {
					stmts(c.Stmt)
				}
			}
		}
	}
	stmts(mod.Apps[app].Endpoints[ep].Stmt)
}

// H3: two endpoints per application, so that a participant can be entered again while it
// is already active (a call to another endpoint of the same application, or A -> B -> A);
// the inner endpoint may end in a call (tail position) and the outer one goes on calling.
//verif:shard-quick 16 4
//verif:shard-thorough 16 5
func Harness_C13_Reentry() {
	type slot struct{ app, ep int }
	// A.e has two call slots, A.f, B.e and B.f one each (thorough: C.e too)
	owners := []slot{{0, 0}, {0, 0}, {0, 1}, {1, 0}}
	if nd.Thorough() {
		owners = append(owners, slot{1, 1}, slot{2, 0})
	}
	bodies := map[slot][]*sysl.Statement{}
	for k, o := range owners {
		t := nd.IntRange("call"+string(rune('0'+k)), -1, 5) // -1 none, else (app, ep) = (t/2, t%2)
		if t < 0 {
			continue
		}
		st := c13CallEp(c13Apps[t/2], c13Eps[t%2])
		if o.app == 1 && nd.Bool("B-call-in-alt") {
			st = c13Block(6, []*sysl.Statement{st}) // last choice of an alt
		}
		bodies[o] = append(bodies[o], st)
	}
	if nd.Bool("B.e-returns") {
		bodies[slot{1, 0}] = append(bodies[slot{1, 0}], c13Ret("ok"))
	}
	mod := &sysl.Module{Apps: map[string]*sysl.Application{}}
	for i, a := range c13Apps {
		app := &sysl.Application{Name: &sysl.AppName{Part: []string{a}}, Endpoints: map[string]*sysl.Endpoint{}}
		for j, e := range c13Eps {
			app.Endpoints[e] = &sysl.Endpoint{Name: e, Stmt: bodies[slot{i, j}]}
		}
		mod.Apps[a] = app
	}
	body, aliases, w, failed, err := c13Generate(mod)
	nd.Assert("terminates-without-crash:reentry", !failed)
	if failed {
		return
	}
	nd.Assert("returns-a-diagram:reentry", err == nil)
	arrows := c13Parse(body, aliases, ":reentry")
	nd.Assert("wellformed:writer-has-no-open-activation:reentry", len(w.Active) == 0)
	want := []c13Arrow{{"[", "A"}}
	budget := 300
	c13WalkEp(mod, "A", "e", map[string]bool{"A <- e": true}, &want, &budget)
	nd.Assert("arrows:count:reentry", len(arrows) == len(want))
	for i := range want {
		if i < len(arrows) {
			nd.Assert("arrows:follow-the-call-tree-in-source-order:reentry", arrows[i] == want[i])
		}
	}
}
