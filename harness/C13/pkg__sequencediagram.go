//go:build verif

// C13 — one diagram per endpoint of a project application ("%(epname)" output): each
// diagram follows the call tree from its own start under its OWN blackbox options; a
// blackbox declared on one endpoint does not cut the diagrams of the other endpoints.
// Real code executed: DoConstructSequenceDiagrams, GenerateSequenceDiag, the visitor and
// writer of pkg/cmdutils, the format parsers (regexp from SSA).
// Stand-in under the executor: EscapeWordBoundary (a JSON round trip by reflection that
// only rewrites backspace characters) returns its argument; the formats used have none.
package sequencediagram

import (
	"strings"

	"github.com/anz-bank/sysl/pkg/cmdutils"
	"github.com/anz-bank/sysl/pkg/sysl"
	"github.com/anz-bank/sysl/pkg/zzverif/nd"
	"github.com/sirupsen/logrus"
)

func c13SameString(s string) string { return s }

func Harness_C13_PerEndpointBlackboxes() {
	if !nd.Replaying() {
		nd.Stub("github.com/anz-bank/sysl/pkg/sequencediagram.EscapeWordBoundary", c13SameString)
	}
	call := func(app, ep string) *sysl.Statement {
		return &sysl.Statement{Stmt: &sysl.Statement_Call{Call: &sysl.Call{Target: &sysl.AppName{Part: []string{app}}, Endpoint: ep}}}
	}
	ret := func() *sysl.Statement {
		return &sysl.Statement{Stmt: &sysl.Statement_Ret{Ret: &sysl.Return{Payload: "ok"}}}
	}
	str := func(s string) *sysl.Attribute { return &sysl.Attribute{Attribute: &sysl.Attribute_S{S: s}} }
	arr := func(es ...*sysl.Attribute) *sysl.Attribute {
		return &sysl.Attribute{Attribute: &sysl.Attribute_A{A: &sysl.Attribute_Array{Elt: es}}}
	}
	names := []string{"A-First", "B-Second", "C-Third"}
	n := nd.IntRange("project-endpoints", 2, 3)
	boxed := make([]bool, n)
	proj := &sysl.Application{Name: &sysl.AppName{Part: []string{"Proj"}},
		Attrs:     map[string]*sysl.Attribute{"seqtitle": str("%(epname)")},
		Endpoints: map[string]*sysl.Endpoint{}}
	for i := 0; i < n; i++ {
		boxed[i] = nd.Bool(names[i] + "-declares-the-blackbox")
		ep := &sysl.Endpoint{Name: names[i], Stmt: []*sysl.Statement{call("Svc", "Work")}}
		if boxed[i] {
			ep.Attrs = map[string]*sysl.Attribute{"blackboxes": arr(arr(str("Svc <- Work"), str("stop here")))}
		}
		proj.Endpoints[names[i]] = ep
	}
	mod := &sysl.Module{Apps: map[string]*sysl.Application{
		"Back": {Name: &sysl.AppName{Part: []string{"Back"}}, Endpoints: map[string]*sysl.Endpoint{
			"Deep": {Name: "Deep", Stmt: []*sysl.Statement{ret()}}}},
		"Svc": {Name: &sysl.AppName{Part: []string{"Svc"}}, Endpoints: map[string]*sysl.Endpoint{
			"Work": {Name: "Work", Stmt: []*sysl.Statement{call("Back", "Deep"), ret()}}}},
		"Proj": proj,
	}}
	p := &cmdutils.CmdContextParamSeqgen{
		EndpointFormat: "%(epname)", AppFormat: "%(appname)", Output: "%(epname).png", AppsFlag: []string{"Proj"},
	}
	nd.BudgetDepth(400)
	var out map[string]string
	var err error
	failed, msg := nd.Recovered(func() { out, err = DoConstructSequenceDiagrams(p, mod, logrus.New()) })
	nd.Note(msg)
	nd.Assert("per-endpoint:no-crash", !failed)
	if failed {
		return
	}
	nd.Assert("per-endpoint:one-diagram-per-endpoint", err == nil && len(out) == n)
	for i := 0; i < n; i++ {
		d, ok := out[names[i]+".png"]
		nd.Assert("per-endpoint:diagram-present", ok && d != "")
		if !ok {
			continue
		}
		nd.Assert("per-endpoint:first-call-drawn", strings.Contains(d, ": Work"))
		if boxed[i] {
			nd.Assert("per-endpoint:own-blackbox-cuts-the-tree", strings.Contains(d, "stop here") && !strings.Contains(d, ": Deep"))
		} else {
			nd.Assert("per-endpoint:other-endpoints-blackbox-does-not-apply", !strings.Contains(d, "stop here") && strings.Contains(d, ": Deep"))
		}
	}
}
