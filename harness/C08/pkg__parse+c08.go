package parse

// C08 — recorded source locations point at the declaring text.
// A renderer that records where it writes each element (line, column) under layout chosen
// by solver-visible selectors (indent unit, blank lines, comment lines, HTTP verb, a re-opened
// application); the real pipeline compiles the text and every element's recorded
// location(s) are compared with the renderer's.

import (
	"github.com/anz-bank/sysl/pkg/sysl"
	"github.com/anz-bank/sysl/pkg/zzverif/nd"
)

type c08Writer struct {
	text string
	line int
	pos  map[string][2]int
}

func (w *c08Writer) emit(key string, indent int, s string) {
	sp := ""
	for i := 0; i < indent; i++ {
		sp += " "
	}
	if key != "" {
		w.pos[key] = [2]int{w.line, indent}
	}
	w.text += sp + s + "\n"
	w.line++
}

func (w *c08Writer) blank(n int) {
	for i := 0; i < n; i++ {
		w.text += "\n"
		w.line++
	}
}

func c08At(sc *sysl.SourceContext, p [2]int) bool {
	return sc != nil && sc.File == "a.sysl" && sc.Start != nil && int(sc.Start.Line) == p[0] && int(sc.Start.Col) == p[1]
}

func c08EndOK(sc *sysl.SourceContext) bool {
	if sc == nil || sc.Start == nil || sc.End == nil {
		return false
	}
	return sc.End.Line > sc.Start.Line || (sc.End.Line == sc.Start.Line && sc.End.Col >= sc.Start.Col)
}

//verif:shard-quick 16 4
//verif:shard-thorough 16 5
func Harness_C08_Locations() {
	unit := []int{2, 4}[nd.IntRange("indent-unit", 0, 1)]
	if nd.Thorough() {
		unit = nd.IntRange("indent-unit", 1, 5)
	}
	lead := nd.IntRange("blank-lines-before", 0, 2)
	if !nd.Thorough() {
		nd.Assume(lead <= 1)
	}
	gap := nd.IntRange("blank-lines-between-members", 0, 1)
	comment := nd.Bool("comment-before-type")
	vi := nd.IntRange("verb", 0, 4)
	if !nd.Thorough() {
		nd.Assume(vi == 0 || vi == 4)
	}
	verb := []string{"GET", "POST", "PUT", "DELETE", "PATCH"}[vi]
	reopen := nd.Bool("application-re-opened")
	w := &c08Writer{pos: map[string][2]int{}}
	w.blank(lead)
	w.emit("app", 0, "App:")
	// an annotation of the application, text or list valued, declared again when the
	// application is re-opened
	anno := nd.IntRange("application-annotation", 0, 2)
	annoText := []string{"", "@owner = \"first\"", "@owner = [\"first\"]"}[anno]
	if anno > 0 {
		w.emit("anno", unit, annoText)
	}
	if comment {
		w.emit("", unit, "# a whole-line comment")
	}
	w.emit("type", unit, "!type T:")
	// the field's name as written: plain, or with an escape (stored decoded: "unit price")
	fname, fkey := "f", "f"
	escaped := comment // quick: tied to another selector so that the bound does not double
	if nd.Thorough() {
		escaped = nd.Bool("field-name-escaped")
	}
	if escaped {
		fname, fkey = "unit%20price", "unit price"
	}
	w.emit("field", 2*unit, fname+" <: int")
	w.blank(gap)
	w.emit("endpoint", unit, "e:")
	w.emit("action", 2*unit, "do something")
	w.emit("if", 2*unit, "if c:")
	w.emit("call", 3*unit, "App <- e")
	w.blank(gap)
	w.emit("", unit, "/p:")
	w.emit("method", 2*unit, verb+":")
	w.emit("ret", 3*unit, "return ok")
	redecl := 0
	if reopen {
		w.blank(1)
		w.emit("app2", 0, "App:")
		if anno > 0 {
			w.emit("anno2", unit, []string{"", "@owner = \"second\"", "@owner = [\"second\", \"2nd\"]"}[anno])
		}
		w.emit("type2", unit, "!type U:")
		w.emit("field2", 2*unit, "g <: string")
		// the type T re-opened too, its field f declared again (plain, set or sequence) next to a new field
		redecl = nd.IntRange("field-declared-again-as", 0, 3) // 0: T not re-opened
		if !nd.Thorough() {
			nd.Assume(redecl == 0 || anno == 0) // quick: one kind of repeated declaration at a time
		}
		if redecl > 0 {
			w.emit("typeT2", unit, "!type T:")
			w.emit("fieldf2", 2*unit, fname+" <: "+[]string{"", "int", "set of int", "sequence of int"}[redecl])
			w.emit("fieldh", 2*unit, "h <: string")
		}
	}
	mod, err, crashed, _ := feCompileText(w.text)
	nd.Assert("loc:compiles", !crashed && err == nil && mod != nil)
	if crashed || err != nil || mod == nil {
		return
	}
	app := mod.Apps["App"]
	nd.Assert("loc:app-present", app != nil)
	if app == nil {
		return
	}
	if reopen {
		nd.Assert("loc:application-one-location-per-declaration-in-order", len(app.SourceContexts) == 2 &&
			c08At(app.SourceContexts[0], w.pos["app"]) && c08At(app.SourceContexts[1], w.pos["app2"]))
		u := app.Types["U"]
		nd.Assert("loc:type-in-re-opened-block", u != nil && len(u.SourceContexts) == 1 && c08At(u.SourceContexts[0], w.pos["type2"]) && c08EndOK(u.SourceContexts[0]))
		if u != nil {
			g := u.GetTuple().GetAttrDefs()["g"]
			nd.Assert("loc:field-in-re-opened-block", g != nil && len(g.SourceContexts) == 1 && c08At(g.SourceContexts[0], w.pos["field2"]))
		}
	} else {
		nd.Assert("loc:application", len(app.SourceContexts) == 1 && c08At(app.SourceContexts[0], w.pos["app"]))
	}
	for _, sc := range app.SourceContexts {
		nd.Assert("loc:application-end-not-before-start", c08EndOK(sc))
	}
	if anno > 0 {
		a := app.Attrs["owner"]
		if reopen {
			nd.Assert("loc:annotation-declared-again-one-location-per-declaration-in-order", a != nil && len(a.SourceContexts) == 2 &&
				c08At(a.SourceContexts[0], w.pos["anno"]) && c08At(a.SourceContexts[1], w.pos["anno2"]) && c08EndOK(a.SourceContexts[0]) && c08EndOK(a.SourceContexts[1]))
		} else {
			nd.Assert("loc:annotation", a != nil && len(a.SourceContexts) == 1 && c08At(a.SourceContexts[0], w.pos["anno"]) && c08EndOK(a.SourceContexts[0]))
		}
	}
	t := app.Types["T"]
	if redecl > 0 {
		nd.Assert("loc:re-opened-type-one-location-per-declaration-in-order", t != nil && len(t.SourceContexts) == 2 &&
			c08At(t.SourceContexts[0], w.pos["type"]) && c08At(t.SourceContexts[1], w.pos["typeT2"]) && c08EndOK(t.SourceContexts[1]))
		if t != nil {
			f := t.GetTuple().GetAttrDefs()[fkey]
			nd.Assert("loc:field-declared-again-one-location-per-declaration-in-order", f != nil && len(f.SourceContexts) == 2 &&
				c08At(f.SourceContexts[0], w.pos["field"]) && c08At(f.SourceContexts[1], w.pos["fieldf2"]))
			h := t.GetTuple().GetAttrDefs()["h"]
			nd.Assert("loc:new-field-of-re-opened-type", h != nil && len(h.SourceContexts) == 1 && c08At(h.SourceContexts[0], w.pos["fieldh"]))
		}
	} else {
		nd.Assert("loc:type", t != nil && len(t.SourceContexts) == 1 && c08At(t.SourceContexts[0], w.pos["type"]) && c08EndOK(t.SourceContexts[0]))
		if t != nil {
			f := t.GetTuple().GetAttrDefs()[fkey]
			nd.Assert("loc:field", f != nil && len(f.SourceContexts) == 1 && c08At(f.SourceContexts[0], w.pos["field"]) && c08EndOK(f.SourceContexts[0]))
		}
	}
	ep := app.Endpoints["e"]
	nd.Assert("loc:endpoint", ep != nil && len(ep.SourceContexts) == 1 && c08At(ep.SourceContexts[0], w.pos["endpoint"]) && c08EndOK(ep.SourceContexts[0]))
	if ep != nil && len(ep.Stmt) == 2 {
		nd.Assert("loc:action-statement", len(ep.Stmt[0].SourceContexts) == 1 && c08At(ep.Stmt[0].SourceContexts[0], w.pos["action"]) && c08EndOK(ep.Stmt[0].SourceContexts[0]))
		nd.Assert("loc:if-statement", len(ep.Stmt[1].SourceContexts) == 1 && c08At(ep.Stmt[1].SourceContexts[0], w.pos["if"]) && c08EndOK(ep.Stmt[1].SourceContexts[0]))
		inner := ep.Stmt[1].GetCond().GetStmt()
		nd.Assert("loc:nested-call-statement", len(inner) == 1 && len(inner[0].SourceContexts) == 1 && c08At(inner[0].SourceContexts[0], w.pos["call"]) && c08EndOK(inner[0].SourceContexts[0]))
	} else {
		nd.Assert("loc:statements-present", false)
	}
	m := app.Endpoints[verb+" /p"]
	nd.Assert("loc:rest-method", m != nil && len(m.SourceContexts) == 1 && c08At(m.SourceContexts[0], w.pos["method"]) && c08EndOK(m.SourceContexts[0]))
	if m != nil && len(m.Stmt) == 1 {
		nd.Assert("loc:return-statement", len(m.Stmt[0].SourceContexts) == 1 && c08At(m.Stmt[0].SourceContexts[0], w.pos["ret"]) && c08EndOK(m.Stmt[0].SourceContexts[0]))
	}
}

// further element shapes, one per path, with a symbolic number of blank lines in front:
// a field with an array size, an inline (nested) tuple field, a multi-line annotation
// declared again, an endpoint re-opened with only an annotation, an event / alias / enum /
// union declared again.
//
//verif:shard-quick 8 1
//verif:shard-thorough 8 1
func Harness_C08_MoreShapes() {
	shape := nd.IntRange("shape", 0, 7)
	lead := nd.IntRange("blank-lines-before", 0, 1)
	w := &c08Writer{pos: map[string][2]int{}}
	w.blank(lead)
	switch shape {
	case 0: // field with an array size
		w.emit("app", 0, "App:")
		w.emit("type", 4, "!type T:")
		w.emit("f", 8, "f(1..3) <: int")
		w.emit("g", 8, "g <: int")
	case 1: // inline tuple
		w.emit("app", 0, "App:")
		w.emit("type", 4, "!type T:")
		w.emit("f", 8, "f <:")
		w.emit("inner", 12, "x <: int")
		w.emit("g", 8, "g <: int")
	case 2: // multi-line annotation declared again
		w.emit("app", 0, "App:")
		w.emit("anno", 4, "@note =:")
		w.emit("", 8, "| first")
		w.emit("ep", 4, "e:")
		w.emit("", 8, "...")
		w.emit("app2", 0, "App:")
		w.emit("anno2", 4, "@note =:")
		w.emit("", 8, "| again")
		w.emit("ep2", 4, "e2:")
		w.emit("", 8, "...")
	case 3: // endpoint re-opened with only an annotation
		w.emit("app", 0, "App:")
		w.emit("ep", 4, "e:")
		w.emit("s1", 8, "do something")
		w.emit("s2", 8, "do more")
		w.emit("app2", 0, "App:")
		w.emit("ep2", 4, "e:")
		w.emit("", 8, "@x = \"y\"")
	case 4: // event declared again
		w.emit("app", 0, "App:")
		w.emit("ep", 4, "<-> Ev:")
		w.emit("", 8, "...")
		w.emit("app2", 0, "App:")
		w.emit("ep2", 4, "<-> Ev:")
		w.emit("", 8, "...")
	case 5, 6, 7: // alias / enum / union declared again
		decl := [][2]string{{"!alias A:", "int"}, {"!enum A:", "one: 1"}, {"!union A:", "int"}}[shape-5]
		w.emit("app", 0, "App:")
		w.emit("ep", 4, decl[0])
		w.emit("", 8, decl[1])
		w.emit("app2", 0, "App:")
		w.emit("ep2", 4, decl[0])
		w.emit("", 8, decl[1])
	}
	mod, err, crashed, _ := feCompileText(w.text)
	nd.Assert("more:compiles", !crashed && err == nil && mod != nil)
	if crashed || err != nil || mod == nil {
		return
	}
	app := mod.Apps["App"]
	one := func(scs []*sysl.SourceContext, key string) bool {
		return len(scs) == 1 && c08At(scs[0], w.pos[key]) && c08EndOK(scs[0])
	}
	two := func(scs []*sysl.SourceContext, k1, k2 string) bool {
		return len(scs) == 2 && c08At(scs[0], w.pos[k1]) && c08At(scs[1], w.pos[k2]) && c08EndOK(scs[0]) && c08EndOK(scs[1])
	}
	switch shape {
	case 0:
		fs := app.Types["T"].GetTuple().GetAttrDefs()
		nd.Assert("more:field-with-array-size", fs["f"] != nil && one(fs["f"].SourceContexts, "f"))
		nd.Assert("more:field-after-it", fs["g"] != nil && one(fs["g"].SourceContexts, "g"))
	case 1:
		fs := app.Types["T"].GetTuple().GetAttrDefs()
		nd.Assert("more:field-with-inline-tuple", fs["f"] != nil && one(fs["f"].SourceContexts, "f"))
		in := app.Types["T.f"]
		nd.Assert("more:inline-tuple-type", in != nil && one(in.SourceContexts, "f"))
		if in != nil {
			x := in.GetTuple().GetAttrDefs()["x"]
			nd.Assert("more:field-of-inline-tuple", x != nil && one(x.SourceContexts, "inner"))
		}
	case 2:
		a := app.Attrs["note"]
		nd.Assert("more:multi-line-annotation-declared-again", a != nil && two(a.SourceContexts, "anno", "anno2"))
	case 3:
		ep := app.Endpoints["e"]
		nd.Assert("more:endpoint-re-opened-with-an-annotation", ep != nil && two(ep.SourceContexts, "ep", "ep2"))
		if ep != nil && len(ep.Stmt) == 2 {
			last := ep.Stmt[1].SourceContexts
			// the statement ends in its own block: before the second "App:" line
			nd.Assert("more:statement-ends-within-its-own-declaration", len(last) == 1 && c08At(last[0], w.pos["s2"]) && c08EndOK(last[0]) &&
				int(last[0].End.Line) <= w.pos["app2"][0])
		}
	case 4:
		ep := app.Endpoints["Ev"]
		nd.Assert("more:event-declared-again", ep != nil && two(ep.SourceContexts, "ep", "ep2"))
	case 5, 6, 7:
		t := app.Types["A"]
		nd.Assert("more:alias-enum-union-declared-again", t != nil && two(t.SourceContexts, "ep", "ep2"))
	}
}
