//go:build verif

// C12 (return payloads) — the response of an endpoint is read from its return payload:
// "name <: T", "name <: sequence of T", "name <: set of T" with T a primitive, a type of
// the same application or a type of another application ("App.Type"). The element
// reference must come out exactly as written, for every spelling of the type name.
// Real code executed: (*AppMapper).mapResponse, mapReturnType, mapSimpleReturnType,
// IsPrimitive (pkg/syslwrapper/app.go), which the exporters' input is built by.
package syslwrapper

import (
	"github.com/anz-bank/sysl/pkg/sysl"
	"github.com/anz-bank/sysl/pkg/zzverif/nd"
)

func c12Letters(name string, n int) string {
	s := nd.StringN(name, n)
	for i := 0; i < len(s); i++ {
		c := s[i]
		nd.Assume(c >= 'a' && c <= 'z' || c >= 'A' && c <= 'Z' || c == '_')
	}
	return s
}

var c12Prims = []string{"double", "int64", "float64", "string", "bool", "date", "datetime"}

//verif:shard-quick 8 3
//verif:shard-thorough 16 4
func Harness_C12_ReturnPayload() {
	wrap := nd.IntRange("wrapped-as", 0, 2) // 0 plain, 1 sequence of, 2 set of
	what := nd.IntRange("element", 0, 2)    // 0 primitive, 1 type of another application, 2 type of this application
	n := 2
	if nd.Thorough() {
		n = 3
	}
	am := &AppMapper{Types: map[string]*sysl.Type{"App.order": {}, "App.Item": {}, "App.user": {}}}
	var elem, wantKind, wantRef string
	switch what {
	case 0:
		elem = c12Prims[nd.IntRange("primitive", 0, len(c12Prims)-1)]
		wantKind = elem
	case 1:
		elem = c12Letters("app", n) + "." + c12Letters("type", n)
		wantKind, wantRef = "ref", elem
	default:
		elem = []string{"order", "Item", "user"}[nd.IntRange("local-type", 0, 2)]
		wantKind, wantRef = "ref", "App."+elem
	}
	named := nd.Bool("named-return")
	payload := []string{"", "sequence of ", "set of "}[wrap] + elem
	wantName := "200"
	if named {
		payload = "ok <: " + payload
		wantName = "ok"
	}
	stmts := []*sysl.Statement{
		{Stmt: &sysl.Statement_Action{Action: &sysl.Action{Action: "something"}}},
		{Stmt: &sysl.Statement_Ret{Ret: &sysl.Return{Payload: payload}}},
	}
	var res map[string]*Parameter
	crashed, _ := nd.Recovered(func() { res = am.mapResponse(stmts, "App") })
	nd.Assert("return:no-crash", !crashed)
	if crashed {
		return
	}
	p := res[wantName]
	nd.Assert("return:one-response-under-its-name", len(res) == 1 && p != nil && p.Name == wantName)
	if p == nil {
		return
	}
	t := p.Type
	if wrap > 0 {
		nd.Assert("return:collection-kind", t != nil && t.Type == []string{"", "list", "set"}[wrap] && len(t.Items) == 1)
		if t == nil || len(t.Items) != 1 {
			return
		}
		t = t.Items[0]
	}
	nd.Assert("return:element-kind", t != nil && t.Type == wantKind)
	if t != nil && wantRef != "" {
		nd.Assert("return:element-reference-exactly-as-written", t.Reference == wantRef)
	}
}
