//go:build verif

// C12 (return payloads) — the response of an endpoint is read from its return payload:
// "name <: T", "name <: sequence of T", "name <: set of T" with T a primitive, a type of
// the same application or a type of another application ("App.Type"). The element
// reference must come out exactly as written, for every spelling of the type name.
// Real code executed: (*AppMapper).mapResponse, mapReturnType, mapSimpleReturnType,
// IsPrimitive (pkg/syslwrapper/app.go), which the exporters' input is built by.
package syslwrapper

import (
	"github.com/anz-bank/sysl/pkg/sysl"
	"github.com/anz-bank/sysl/pkg/zzverif/nd"
)

func c12Letters(name string, n int) string {
	s := nd.StringN(name, n)
	for i := 0; i < len(s); i++ {
		c := s[i]
		nd.Assume(c >= 'a' && c <= 'z' || c >= 'A' && c <= 'Z' || c == '_')
	}
	return s
}

var c12Prims = []string{"double", "int64", "float64", "string", "bool", "date", "datetime"}

//verif:shard-quick 8 3
//verif:shard-thorough 16 4
func Harness_C12_ReturnPayload() {
	wrap := nd.IntRange("wrapped-as", 0, 2) // 0 plain, 1 sequence of, 2 set of
	what := nd.IntRange("element", 0, 2)    // 0 primitive, 1 type of another application, 2 type of this application
	n := 2
	if nd.Thorough() {
		n = 3
	}
	am := &AppMapper{Types: map[string]*sysl.Type{"App.order": {}, "App.Item": {}, "App.user": {}}}
	var elem, wantKind, wantRef string
	switch what {
	case 0:
		elem = c12Prims[nd.IntRange("primitive", 0, len(c12Prims)-1)]
		wantKind = elem
	case 1:
		elem = c12Letters("app", n) + "." + c12Letters("type", n)
		wantKind, wantRef = "ref", elem
	default:
		elem = []string{"order", "Item", "user"}[nd.IntRange("local-type", 0, 2)]
		wantKind, wantRef = "ref", "App."+elem
	}
	named := nd.Bool("named-return")
	payload := []string{"", "sequence of ", "set of "}[wrap] + elem
	wantName := "200"
	if named {
		payload = "ok <: " + payload
		wantName = "ok"
	}
	stmts := []*sysl.Statement{
		{Stmt: &sysl.Statement_Action{Action: &sysl.Action{Action: "something"}}},
		{Stmt: &sysl.Statement_Ret{Ret: &sysl.Return{Payload: payload}}},
	}
	var res map[string]*Parameter
	crashed, _ := nd.Recovered(func() { res = am.mapResponse(stmts, "App") })
	nd.Assert("return:no-crash", !crashed)
	if crashed {
		return
	}
	p := res[wantName]
	nd.Assert("return:one-response-under-its-name", len(res) == 1 && p != nil && p.Name == wantName)
	if p == nil {
		return
	}
	t := p.Type
	if wrap > 0 {
		nd.Assert("return:collection-kind", t != nil && t.Type == []string{"", "list", "set"}[wrap] && len(t.Items) == 1)
		if t == nil || len(t.Items) != 1 {
			return
		}
		t = t.Items[0]
	}
	nd.Assert("return:element-kind", t != nil && t.Type == wantKind)
	if t != nil && wantRef != "" {
		nd.Assert("return:element-reference-exactly-as-written", t.Reference == wantRef)
	}
}

// the parameters of a REST endpoint: every query, path, header and body parameter the
// endpoint declares is mapped, each with its own location, whatever mix is present
func Harness_C12_EndpointParameters() {
	nq := nd.IntRange("query-parameters", 0, 2)
	nu := nd.IntRange("path-parameters", 0, 2)
	header := nd.Bool("header-parameter")
	body := nd.Bool("body-parameter")
	prim := func(p sysl.Type_Primitive) *sysl.Type { return &sysl.Type{Type: &sysl.Type_Primitive_{Primitive: p}} }
	ep := &sysl.Endpoint{Name: "GET /x", RestParams: &sysl.Endpoint_RestParams{Method: sysl.Endpoint_RestParams_GET, Path: "/x"}}
	want := map[string]string{}
	for i := 0; i < nq; i++ {
		n := "q" + string(rune('0'+i))
		ep.RestParams.QueryParam = append(ep.RestParams.QueryParam, &sysl.Endpoint_RestParams_QueryParam{Name: n, Type: prim(sysl.Type_INT)})
		want[n] = "query"
	}
	for i := 0; i < nu; i++ {
		n := "u" + string(rune('0'+i))
		ep.RestParams.UrlParam = append(ep.RestParams.UrlParam, &sysl.Endpoint_RestParams_QueryParam{Name: n, Type: prim(sysl.Type_STRING)})
		want[n] = "path"
	}
	if header {
		ep.Param = append(ep.Param, &sysl.Param{Name: "h", Type: prim(sysl.Type_STRING)})
		want["h"] = "header"
	}
	if body {
		t := prim(sysl.Type_STRING)
		t.Attrs = map[string]*sysl.Attribute{"patterns": {Attribute: &sysl.Attribute_A{A: &sysl.Attribute_Array{
			Elt: []*sysl.Attribute{{Attribute: &sysl.Attribute_S{S: "body"}}}}}}}
		ep.Param = append(ep.Param, &sysl.Param{Name: "b", Type: t})
		want["b"] = "body"
	}
	am := &AppMapper{Types: map[string]*sysl.Type{}}
	var got map[string]*Parameter
	crashed, msg := nd.Recovered(func() { got = am.mapAllParams(ep) })
	nd.Note(msg)
	nd.Assert("parameters:no-crash", !crashed)
	if crashed {
		return
	}
	nd.Assert("parameters:exactly-the-declared-ones", len(got) == len(want))
	for n, in := range want {
		p := got[n]
		nd.Assert("parameters:each-with-its-location", p != nil && p.Name == n && p.In == in && p.Type != nil)
	}
}
