package exporter

// C12 — OpenAPI export carries every type and endpoint.
// Real code executed: OpenAPI3Exporter.GenerateOpenAPI3, exportType, convertEnum,
// parseResponseCode, SyslRefToJSONSchema and the kin-openapi constructors they call.

import (
	"github.com/anz-bank/sysl/pkg/syslwrapper"
	"github.com/anz-bank/sysl/pkg/zzverif/nd"
	"github.com/getkin/kin-openapi/openapi3"
)

var c12Prims = []string{"bool", "int", "string", "float", "date"}

// kinds: 0..4 primitives, 5 list of string, 6 list of ref, 7 ref, 8 enum, 9 nested tuple
func c12Type(kind int, opt bool) *syslwrapper.Type {
	t := &syslwrapper.Type{Optional: opt}
	switch {
	case kind < 5:
		t.Type = c12Prims[kind]
	case kind == 5:
		t.Type = "list"
		t.Items = []*syslwrapper.Type{{Type: "string"}}
	case kind == 6:
		t.Type = "list"
		t.Items = []*syslwrapper.Type{{Type: "ref", Reference: "App.Other"}}
	case kind == 7:
		t.Type = "ref"
		t.Reference = "App.Other"
	case kind == 8:
		t.Type = "enum"
		t.Enum = map[int64]string{1: "one", 2: "two"}
	default:
		t.Type = "tuple"
		t.Properties = map[string]*syslwrapper.Type{"inner": {Type: "int", Optional: true}, "must": {Type: "string"}}
	}
	return t
}

func c12SchemaType(s *openapi3.Schema) string {
	if s == nil || s.Type == nil {
		return ""
	}
	ts := *s.Type
	if len(ts) == 1 {
		return ts[0]
	}
	return ""
}

func c12CheckSchema(label string, kind int, ref *openapi3.SchemaRef) {
	nd.Assert(label+":schema-present", ref != nil && (ref.Value != nil || ref.Ref != ""))
	if ref == nil {
		return
	}
	switch {
	case kind == 0:
		nd.Assert(label+":kind", c12SchemaType(ref.Value) == "boolean")
	case kind == 1:
		nd.Assert(label+":kind", c12SchemaType(ref.Value) == "integer")
	case kind == 2:
		nd.Assert(label+":kind", c12SchemaType(ref.Value) == "string" && ref.Value.Format == "")
	case kind == 3:
		nd.Assert(label+":kind", c12SchemaType(ref.Value) == "number")
	case kind == 4:
		nd.Assert(label+":kind", c12SchemaType(ref.Value) == "string" && ref.Value.Format == "date")
	case kind == 5:
		nd.Assert(label+":array", c12SchemaType(ref.Value) == "array")
		nd.Assert(label+":array-items-kept", ref.Value.Items != nil && c12SchemaType(ref.Value.Items.Value) == "string")
	case kind == 6:
		nd.Assert(label+":array", c12SchemaType(ref.Value) == "array")
		nd.Assert(label+":array-items-kept", ref.Value.Items != nil && ref.Value.Items.Ref == "#/components/schemas/Other")
	case kind == 7:
		nd.Assert(label+":reference-target", ref.Ref == "#/components/schemas/Other")
	case kind == 8:
		nd.Assert(label+":enum-values", c12SchemaType(ref.Value) == "string" && len(ref.Value.Enum) == 2)
	default:
		nd.Assert(label+":nested-object", c12SchemaType(ref.Value) == "object" && len(ref.Value.Properties) == 2 &&
			len(ref.Value.Required) == 1 && ref.Value.Required[0] == "must")
	}
}

// a tuple type with three properties of arbitrary kind and optionality
//verif:shard-quick 8 3
//verif:shard-thorough 16 4
func Harness_C12_TypeSchema() {
	names := []string{"pa", "pb", "pc"}
	if !nd.Thorough() {
		names = names[:2]
	}
	kinds := make([]int, len(names))
	opts := make([]bool, len(names))
	props := map[string]*syslwrapper.Type{}
	for i, n := range names {
		kinds[i] = nd.IntRange(n+".kind", 0, 9)
		opts[i] = nd.Bool(n + ".optional")
		props[n] = c12Type(kinds[i], opts[i])
	}
	app := &syslwrapper.App{Name: "App", Attributes: map[string]string{},
		Types:     map[string]*syslwrapper.Type{"T": {Type: "tuple", Properties: props}, "Other": {Type: "tuple", Properties: map[string]*syslwrapper.Type{}}},
		Endpoints: map[string]*syslwrapper.Endpoint{}}
	ex := MakeOpenAPI3Exporter(map[string]*syslwrapper.App{"App": app}, nil)
	var spec *openapi3.T
	var err error
	failed, _ := nd.Recovered(func() { spec, err = ex.GenerateOpenAPI3(app) })
	nd.Assert("export:no-crash", !failed)
	if failed {
		return
	}
	nd.Assert("export:succeeds", err == nil && spec != nil && spec.Components != nil)
	nd.Assert("types:every-type-has-a-schema", len(spec.Components.Schemas) == 2 && spec.Components.Schemas["T"] != nil && spec.Components.Schemas["Other"] != nil)
	t := spec.Components.Schemas["T"]
	if t == nil || t.Value == nil {
		return
	}
	nd.Assert("types:object", c12SchemaType(t.Value) == "object")
	nd.Assert("types:every-field-is-a-property", len(t.Value.Properties) == len(names))
	nreq := 0
	for i, n := range names {
		c12CheckSchema("field", kinds[i], t.Value.Properties[n])
		inReq := 0
		for _, r := range t.Value.Required {
			if r == n {
				inReq++
			}
		}
		if opts[i] {
			nd.Assert("types:optional-field-not-required", inReq == 0)
		} else {
			nd.Assert("types:mandatory-field-required-once", inReq == 1)
			nreq++
		}
	}
	nd.Assert("types:required-has-nothing-else", len(t.Value.Required) == nreq)
}

// one REST endpoint with parameters in every location and typed responses
//verif:shard-quick 8 3
//verif:shard-thorough 8 3
func Harness_C12_Operation() {
	locs := []string{"header", "path", "query", "body"}
	l0 := nd.IntRange("p0.in", 0, 3)
	l1 := nd.IntRange("p1.in", 0, 2)
	o0 := nd.Bool("p0.optional")
	o1 := nd.Bool("p1.optional")
	k0 := nd.IntRange("p0.kind", 0, 9)
	// parameters are processed in name order: either of the two may come first
	n0, n1 := "p0", "p1"
	if nd.Bool("first-parameter-sorts-last") {
		n0 = "z0"
	}
	method := []string{"GET", "POST", "PUT", "DELETE", "PATCH"}[nd.IntRange("method", 0, 4)]
	respKind := nd.IntRange("resp.kind", 0, 9)
	ep := &syslwrapper.Endpoint{
		Summary: "s", Description: "d", Path: method + " /things/{id}",
		Params: map[string]*syslwrapper.Parameter{
			n0: {In: locs[l0], Name: n0, Type: c12Type(k0, o0)},
			n1: {In: locs[l1], Name: n1, Type: c12Type(1, o1)},
		},
		Response: map[string]*syslwrapper.Parameter{
			"ok":  {Name: "ok", Type: c12Type(respKind, false)},
			"404": {Name: "404", Type: c12Type(2, false)},
		},
	}
	app := &syslwrapper.App{Name: "App", Attributes: map[string]string{}, Types: map[string]*syslwrapper.Type{},
		Endpoints: map[string]*syslwrapper.Endpoint{"e": ep}}
	ex := MakeOpenAPI3Exporter(map[string]*syslwrapper.App{"App": app}, nil)
	var spec *openapi3.T
	var err error
	failed, _ := nd.Recovered(func() { spec, err = ex.GenerateOpenAPI3(app) })
	nd.Assert("export:no-crash", !failed)
	if failed {
		return
	}
	nd.Assert("export:succeeds", err == nil && spec != nil)
	item := spec.Paths.Find("/things/{id}")
	nd.Assert("operation:path-present", item != nil)
	if item == nil {
		return
	}
	op := item.GetOperation(method)
	nd.Assert("operation:method-present", op != nil && len(item.Operations()) == 1)
	if op == nil {
		return
	}
	nd.Assert("operation:summary-description", op.Summary == "s" && op.Description == "d")
	nparams := 0
	check := func(name string, loc string, opt bool, kind int) {
		if loc == "body" {
			nd.Assert("operation:request-body", op.RequestBody != nil && op.RequestBody.Value != nil && op.RequestBody.Value.Required == !opt)
			if op.RequestBody != nil && op.RequestBody.Value != nil {
				mt := op.RequestBody.Value.Content["application/json"]
				nd.Assert("operation:request-body-schema", mt != nil)
				if mt != nil {
					c12CheckSchema("body", kind, mt.Schema)
				}
			}
			return
		}
		nparams++
		p := op.Parameters.GetByInAndName(loc, name)
		nd.Assert("operation:parameter-by-location", p != nil)
		if p != nil {
			nd.Assert("operation:parameter-required-iff-not-optional", p.Required == !opt)
			c12CheckSchema("param", kind, p.Schema)
		}
	}
	check(n0, locs[l0], o0, k0)
	check(n1, locs[l1], o1, 1)
	nd.Assert("operation:no-extra-parameters", len(op.Parameters) == nparams)
	if l0 != 3 {
		nd.Assert("operation:no-request-body", op.RequestBody == nil)
	}
	r200 := op.Responses.Status(200)
	r404 := op.Responses.Status(404)
	nd.Assert("operation:one-response-per-return", r200 != nil && r404 != nil)
	if r200 != nil && r200.Value != nil {
		mt := r200.Value.Content["application/json"]
		nd.Assert("operation:response-schema", mt != nil)
		if mt != nil {
			c12CheckSchema("response", respKind, mt.Schema)
		}
	}
}
