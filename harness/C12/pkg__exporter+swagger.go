package exporter

// C12 — Swagger 2 export: every return statement of a REST endpoint becomes a response
// of its own status with its own schema reference.
// Real code executed: EndpointExporter.exportChildStmts, TypeExporter.isCompositeString
// (regexp, strconv, strings and net/http.StatusText from SSA).

import (
	proto "github.com/anz-bank/sysl/pkg/sysl"
	"github.com/anz-bank/sysl/pkg/zzverif/nd"
	"github.com/go-openapi/spec"
	"github.com/sirupsen/logrus"
)

type c12Ret struct {
	payload string
	status  int
	ref     string // "" = no schema
}

// one pool per statement position; statuses of different positions never coincide
var c12RetPools = [][]c12Ret{
	{
		{"200 <: Pet", 200, "#/definitions/Pet"},
		{"Pet", 200, "#/definitions/Pet"},
		{"200 <: sequence of Pet", 200, "#/definitions/Pet"},
		{"200 <: Empty", 200, ""},
		{"200", 200, ""},
	},
	{
		{"404 <: NotFound", 404, "#/definitions/NotFound"},
		{"404", 404, ""},
		{"404 <: set of NotFound", 404, "#/definitions/NotFound"},
	},
	{
		{"500 <: Failure", 500, "#/definitions/Failure"},
		{"500 <: Empty", 500, ""},
	},
}

func c12RetStmt(p string) *proto.Statement {
	return &proto.Statement{Stmt: &proto.Statement_Ret{Ret: &proto.Return{Payload: p}}}
}

// 1..3 return statements (between actions), each of an arbitrary shape, in any order
func Harness_C12_SwaggerResponses() {
	n := nd.IntRange("returns", 1, 3)
	order := nd.IntRange("order", 0, 5)
	perms := [][]int{{0, 1, 2}, {0, 2, 1}, {1, 0, 2}, {1, 2, 0}, {2, 0, 1}, {2, 1, 0}}
	var want []c12Ret
	ep := &proto.Endpoint{Name: "GET /pets"}
	ep.Stmt = append(ep.Stmt, &proto.Statement{Stmt: &proto.Statement_Action{Action: &proto.Action{Action: "work"}}})
	for k := 0; k < n; k++ {
		pool := c12RetPools[perms[order][k]]
		r := pool[nd.IntRange("shape"+string(rune('0'+k)), 0, len(pool)-1)]
		want = append(want, r)
		ep.Stmt = append(ep.Stmt, c12RetStmt(r.payload))
	}
	logger := logrus.New()
	e := makeEndpointExporter(makeTypeExporter(logger), logger)
	got := map[int]spec.Response{}
	failed, _ := nd.Recovered(func() { e.exportChildStmts(got, ep) })
	nd.Assert("swagger:no-crash", !failed)
	if failed {
		return
	}
	nd.Assert("swagger:one-response-per-return", len(got) == len(want))
	for _, w := range want {
		res, ok := got[w.status]
		nd.Assert("swagger:response-status-present", ok)
		if !ok {
			continue
		}
		if w.ref == "" {
			nd.Assert("swagger:no-schema-for-untyped-return", res.Schema == nil)
			continue
		}
		nd.Assert("swagger:response-schema-present", res.Schema != nil)
		if res.Schema != nil {
			ref, _ := res.Schema.ExtraProps["$ref"].(string)
			nd.Assert("swagger:response-schema-is-the-returned-type", ref == w.ref)
		}
	}
}
