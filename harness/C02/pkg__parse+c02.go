package parse

// C02 — the compiled model says exactly what the specification text declares.
// A generator that knows what it wrote: an abstract description (chosen by solver-visible
// selectors, with symbolic digits / values where numbers matter) is rendered to Sysl text,
// compiled by the real public pipeline (lexer, parser, listener, post-processing — all from
// SSA), and the model is compared with the generator's intent.

import (
	"github.com/anz-bank/sysl/pkg/sysl"
	"github.com/anz-bank/sysl/pkg/zzverif/nd"
)

func c02Digits(name string, n int) (string, int64) {
	d := nd.StringN(name, n)
	var v int64
	for i := 0; i < len(d); i++ {
		nd.Assume(d[i] >= '0' && d[i] <= '9')
		v = v*10 + int64(d[i]-'0')
	}
	nd.Assume(d[0] != '0')
	return d, v
}

type c02Prim struct {
	text  string
	prim  sysl.Type_Primitive
	width int32
	sized bool // accepts a (n) size spec
}

var c02Prims = []c02Prim{
	{"int", sysl.Type_INT, 0, true}, {"int32", sysl.Type_INT, 32, true}, {"int64", sysl.Type_INT, 64, true},
	{"float", sysl.Type_FLOAT, 0, false}, {"float32", sysl.Type_FLOAT, 32, false}, {"float64", sysl.Type_FLOAT, 64, false},
	{"string", sysl.Type_STRING, 0, true}, {"bool", sysl.Type_BOOL, 0, false}, {"date", sysl.Type_DATE, 0, true},
	{"datetime", sysl.Type_DATETIME, 0, true}, {"decimal", sysl.Type_DECIMAL, 0, false}, {"bytes", sysl.Type_BYTES, 0, true},
	{"any", sysl.Type_ANY, 0, false},
}

// fields: every primitive kind / local and cross-application reference, plain or in a set /
// sequence, optional or not, with or without a size
//verif:shard-quick 16 3
//verif:shard-thorough 16 4
func Harness_C02_Fields() {
	kind := nd.IntRange("kind", 0, len(c02Prims)+1) // the last two are references
	wrap := nd.IntRange("wrapper", 0, 2)
	opt := nd.Bool("optional")
	table := nd.Thorough() && nd.Bool("table")
	typeText, sizeText := "", ""
	var size int64
	isRef := kind >= len(c02Prims)
	crossApp := kind == len(c02Prims)+1
	if isRef {
		typeText = "U"
		if crossApp {
			typeText = "Other.U"
		}
	} else {
		typeText = c02Prims[kind].text
		if c02Prims[kind].sized && (nd.Thorough() || kind == 0 || kind == 6) && nd.Bool("sized") {
			n := 1
			if nd.Thorough() {
				n = 2
			}
			var d string
			d, size = c02Digits("size", n)
			sizeText = "(" + d + ")"
		}
	}
	decl := "!type"
	if table {
		decl = "!table"
	}
	line := "        f <: " + []string{"", "set of ", "sequence of "}[wrap] + typeText + sizeText
	if opt {
		line += "?"
	}
	text := "Other:\n    !type U:\n        x <: int\n\nApp:\n    !type U:\n        y <: int\n    " + decl + " T:\n" + line + "\n        g <: int\n"
	mod, err, crashed, _ := feCompileText(text)
	nd.Assert("fields:compiles", !crashed && err == nil && mod != nil)
	if crashed || err != nil || mod == nil {
		return
	}
	app := mod.Apps["App"]
	nd.Assert("fields:exactly-the-declared-types", app != nil && len(app.Types) == 2 && len(mod.Apps) == 2)
	t := app.Types["T"]
	nd.Assert("fields:type-present", t != nil)
	if t == nil {
		return
	}
	var attrs map[string]*sysl.Type
	if table {
		nd.Assert("fields:table-kind", t.GetRelation() != nil)
		attrs = t.GetRelation().GetAttrDefs()
	} else {
		nd.Assert("fields:tuple-kind", t.GetTuple() != nil)
		attrs = t.GetTuple().GetAttrDefs()
	}
	nd.Assert("fields:exactly-the-declared-fields", len(attrs) == 2 && attrs["g"] != nil && attrs["g"].GetPrimitive() == sysl.Type_INT)
	f := attrs["f"]
	nd.Assert("fields:field-present", f != nil)
	if f == nil {
		return
	}
	nd.Assert("fields:optionality", f.Opt == opt)
	core := f
	switch wrap {
	case 1:
		nd.Assert("fields:set-wrapper", f.GetSet() != nil)
		core = f.GetSet()
	case 2:
		nd.Assert("fields:sequence-wrapper", f.GetSequence() != nil)
		core = f.GetSequence()
	default:
		nd.Assert("fields:no-wrapper", f.GetSet() == nil && f.GetSequence() == nil)
	}
	if core == nil {
		return
	}
	if wrap != 0 {
		nd.Assert("fields:element-not-optional", !core.Opt)
	}
	if isRef {
		ref := core.GetTypeRef().GetRef()
		nd.Assert("fields:reference", ref != nil && len(ref.GetPath()) == 1 && ref.GetPath()[0] == "U")
		if ref != nil {
			if crossApp {
				nd.Assert("fields:reference-target-application", ref.GetAppname() != nil && len(ref.GetAppname().Part) == 1 && ref.GetAppname().Part[0] == "Other")
			} else {
				nd.Assert("fields:reference-target-application", ref.GetAppname() == nil)
			}
		}
		return
	}
	p := c02Prims[kind]
	nd.Assert("fields:primitive-kind", core.GetPrimitive() == p.prim)
	nd.Assert("fields:bit-width", getBitWidth(core) == p.width)
	if sizeText != "" {
		nd.Assert("fields:size", len(core.Constraint) == 1 && core.Constraint[0].GetLength().GetMax() == size)
	} else if p.width == 0 {
		nd.Assert("fields:no-constraint", len(core.Constraint) == 0)
	}
}

// enums: every declared enumerator with its value
//verif:shard-quick 16 2
//verif:shard-thorough 16 3
func Harness_C02_Enums() {
	pool := []int64{0, 1, 255, 32767, 32768, 65535, 65536, 70000, 2147483647, 2147483648, 4294967296, 9223372036854775807}
	v0 := pool[nd.IntRange("value0", 0, len(pool)-1)]
	nd1 := 1
	if nd.Thorough() {
		nd1 = 2
	}
	d1, v1 := c02Digits("value1", nd1)
	text := "App:\n    !enum E:\n        first : " + c02Itoa(v0) + "\n        second : " + d1 + "\n"
	mod, err, crashed, _ := feCompileText(text)
	nd.Assert("enums:compiles", !crashed && err == nil && mod != nil)
	if crashed || err != nil || mod == nil {
		return
	}
	e := mod.Apps["App"].Types["E"].GetEnum()
	nd.Assert("enums:present", e != nil && len(e.Items) == 2)
	if e != nil {
		nd.Assert("enums:value-as-written", e.Items["first"] == v0)
		nd.Assert("enums:symbolic-value-as-written", e.Items["second"] == v1)
	}
}

func c02Itoa(v int64) string {
	if v == 0 {
		return "0"
	}
	s := ""
	for v > 0 {
		s = string(rune('0'+v%10)) + s
		v /= 10
	}
	return s
}

// ---- statements ----

// abstract statement
type c02Stmt struct {
	kind int // 0 action 1 call 2 return 3 if 4 else 5 for-each 6 until 7 while 8 loop 9 alt 10 one-of 11 group
	text string
	kids []*c02Stmt   // for blocks
	alts [][]*c02Stmt // for one-of
}

func c02Indent(n int) string {
	s := ""
	for i := 0; i < n; i++ {
		s += "    "
	}
	return s
}

func c02Render(ss []*c02Stmt, depth int) string {
	out := ""
	ind := c02Indent(depth)
	for _, s := range ss {
		switch s.kind {
		case 0:
			out += ind + s.text + "\n"
		case 1:
			out += ind + "Other <- " + s.text + "\n"
		case 2:
			out += ind + "return " + s.text + "\n"
		case 3:
			out += ind + "if " + s.text + ":\n" + c02Render(s.kids, depth+1)
		case 4:
			out += ind + "else " + s.text + ":\n" + c02Render(s.kids, depth+1)
		case 5:
			out += ind + "for each " + s.text + ":\n" + c02Render(s.kids, depth+1)
		case 6:
			out += ind + "until " + s.text + ":\n" + c02Render(s.kids, depth+1)
		case 7:
			out += ind + "while " + s.text + ":\n" + c02Render(s.kids, depth+1)
		case 8:
			out += ind + "loop " + s.text + ":\n" + c02Render(s.kids, depth+1)
		case 9:
			out += ind + "alt " + s.text + ":\n" + c02Render(s.kids, depth+1)
		case 10:
			out += ind + "one of:\n"
			for i, a := range s.alts {
				out += c02Indent(depth+1) + "case" + string(rune('0'+i)) + ":\n" + c02Render(a, depth+2)
			}
		case 11:
			out += ind + s.text + ":\n" + c02Render(s.kids, depth+1)
		}
	}
	return out
}

// c02Match compares compiled statements with the intended ones, in order.
func c02Match(got []*sysl.Statement, want []*c02Stmt) bool {
	if len(got) != len(want) {
		return false
	}
	for i, w := range want {
		g := got[i]
		switch w.kind {
		case 0:
			if g.GetAction() == nil || g.GetAction().Action != w.text {
				return false
			}
		case 1:
			c := g.GetCall()
			if c == nil || c.Endpoint != w.text || len(c.Target.GetPart()) != 1 || c.Target.Part[0] != "Other" {
				return false
			}
		case 2:
			if g.GetRet() == nil || g.GetRet().Payload != w.text {
				return false
			}
		case 3:
			if g.GetCond() == nil || g.GetCond().Test != "if "+w.text || !c02Match(g.GetCond().Stmt, w.kids) {
				return false
			}
		case 4:
			if g.GetCond() == nil || g.GetCond().Test != "else "+w.text || !c02Match(g.GetCond().Stmt, w.kids) {
				return false
			}
		case 5:
			if g.GetForeach() == nil || g.GetForeach().Collection != w.text || !c02Match(g.GetForeach().Stmt, w.kids) {
				return false
			}
		case 6, 7:
			mode := sysl.Loop_UNTIL
			if w.kind == 7 {
				mode = sysl.Loop_WHILE
			}
			if g.GetLoop() == nil || g.GetLoop().Mode != mode || g.GetLoop().Criterion != w.text || !c02Match(g.GetLoop().Stmt, w.kids) {
				return false
			}
		case 8:
			if g.GetGroup() == nil || g.GetGroup().Title != "loop "+w.text || !c02Match(g.GetGroup().Stmt, w.kids) {
				return false
			}
		case 9:
			if g.GetGroup() == nil || g.GetGroup().Title != "alt "+w.text || !c02Match(g.GetGroup().Stmt, w.kids) {
				return false
			}
		case 10:
			a := g.GetAlt()
			if a == nil || len(a.Choice) != len(w.alts) {
				return false
			}
			for k, ch := range a.Choice {
				if ch.Cond != "case"+string(rune('0'+k)) || !c02Match(ch.Stmt, w.alts[k]) {
					return false
				}
			}
		case 11:
			if g.GetGroup() == nil || g.GetGroup().Title != w.text || !c02Match(g.GetGroup().Stmt, w.kids) {
				return false
			}
		}
	}
	return true
}

func c02Leaves(tag string, n int) []*c02Stmt {
	var out []*c02Stmt
	for i := 0; i < n; i++ {
		out = append(out, &c02Stmt{kind: 0, text: tag + string(rune('a'+i))})
	}
	return out
}

// statement trees: one block of any kind (with a chosen number of children, so that
// "more than four statements in an else branch" is inside the bound), optionally nested
// in a second block, between plain statements
//verif:shard-quick 16 3
//verif:shard-thorough 16 4
func Harness_C02_Statements() {
	outer := nd.IntRange("outer-kind", 3, 11)
	nkids := 1
	if nd.Thorough() {
		nkids = nd.IntRange("children", 1, 6)
	} else if nd.Bool("five-children") {
		nkids = 5
	}
	kids := c02Leaves("leaf", nkids)
	if nd.Bool("call-and-return-inside") {
		kids = append(kids, &c02Stmt{kind: 1, text: "e"}, &c02Stmt{kind: 2, text: "ok"})
	}
	mk := func(kind int, text string, kids []*c02Stmt) []*c02Stmt {
		switch kind {
		case 4: // an else needs its if
			return []*c02Stmt{{kind: 3, text: "c", kids: c02Leaves("then", 1)}, {kind: 4, text: text, kids: kids}}
		case 10:
			return []*c02Stmt{{kind: 10, alts: [][]*c02Stmt{c02Leaves("first", 1), kids}}}
		}
		return []*c02Stmt{{kind: kind, text: text, kids: kids}}
	}
	body := mk(outer, "x", kids)
	if nd.Bool("nested") {
		inner := 0
		if nd.Thorough() {
			inner = nd.IntRange("wrapping-kind", 3, 11)
		} else {
			inner = []int{3, 4, 10}[nd.IntRange("wrapping-kind", 0, 2)]
		}
		body = mk(inner, "y", body)
	}
	stmts := append([]*c02Stmt{{kind: 0, text: "before"}}, body...)
	stmts = append(stmts, &c02Stmt{kind: 0, text: "after"})
	text := "Other:\n    e:\n        ...\n\nApp:\n    ep:\n" + c02Render(stmts, 2)
	mod, err, crashed, _ := feCompileText(text)
	nd.Assert("statements:compiles", !crashed && err == nil && mod != nil)
	if crashed || err != nil || mod == nil {
		return
	}
	ep := mod.Apps["App"].Endpoints["ep"]
	nd.Assert("statements:endpoint-present", ep != nil && len(mod.Apps["App"].Endpoints) == 1)
	if ep != nil {
		nd.Assert("statements:kind-text-nesting-and-order-as-written", c02Match(ep.Stmt, stmts))
	}
}

// REST endpoints: nested paths, methods, path and query parameters
//verif:shard-quick 8 3
//verif:shard-thorough 16 4
func Harness_C02_Rest() {
	methods := []string{"GET", "POST", "PUT", "DELETE", "PATCH"}
	m1 := methods[nd.IntRange("method1", 0, 4)]
	m2 := "GET"
	if nd.Thorough() {
		m2 = methods[nd.IntRange("method2", 0, 4)]
	}
	nested := nd.Bool("nested-path")
	withVar := nd.Bool("path-variable")
	withQuery := nd.Bool("query-parameter")
	seg2 := "/sub"
	if withVar {
		seg2 = "/{id<:int}"
	}
	q := ""
	if withQuery {
		q = " ?q=string&n=int"
	}
	text := "App:\n    /top:\n        " + m1 + q + ":\n            ...\n"
	if nested {
		text += "        " + seg2 + ":\n            " + m2 + ":\n                ...\n"
	}
	mod, err, crashed, _ := feCompileText(text)
	nd.Assert("rest:compiles", !crashed && err == nil && mod != nil)
	if crashed || err != nil || mod == nil {
		return
	}
	eps := mod.Apps["App"].Endpoints
	want := 1
	if nested {
		want = 2
	}
	nd.Assert("rest:exactly-the-declared-endpoints", len(eps) == want)
	e1 := eps[m1+" /top"]
	nd.Assert("rest:endpoint-name-method-and-path", e1 != nil && e1.RestParams != nil && e1.RestParams.Path == "/top" && e1.RestParams.Method.String() == m1)
	if e1 != nil && e1.RestParams != nil {
		if withQuery {
			qp := e1.RestParams.QueryParam
			nd.Assert("rest:query-parameters", len(qp) == 2 && qp[0].Name == "q" && qp[0].Type.GetPrimitive() == sysl.Type_STRING && qp[1].Name == "n" && qp[1].Type.GetPrimitive() == sysl.Type_INT)
		} else {
			nd.Assert("rest:no-query-parameters", len(e1.RestParams.QueryParam) == 0)
		}
	}
	if nested {
		path2 := "/top/sub"
		if withVar {
			path2 = "/top/{id}"
		}
		e2 := eps[m2+" "+path2]
		nd.Assert("rest:nested-endpoint", e2 != nil && e2.RestParams != nil && e2.RestParams.Path == path2 && e2.RestParams.Method.String() == m2)
		if e2 != nil && e2.RestParams != nil {
			if withVar {
				up := e2.RestParams.UrlParam
				nd.Assert("rest:path-parameter", len(up) == 1 && up[0].Name == "id" && up[0].Type.GetPrimitive() == sysl.Type_INT)
			} else {
				nd.Assert("rest:no-path-parameter", len(e2.RestParams.UrlParam) == 0)
			}
			nd.Assert("rest:query-not-inherited", len(e2.RestParams.QueryParam) == 0)
		}
	}
}

// mixins: the mixing application gets the mixed-in application's types, except where it
// declares a type of that name itself; nothing else changes
func Harness_C02_Mixins() {
	hostHasItem := nd.Bool("host-declares-Item-itself")
	hostHasOwn := nd.Bool("host-declares-Own")
	baseHasExtra := nd.Bool("base-declares-Extra")
	hostFirst := nd.Bool("host-before-base-in-the-text")
	base := "Base [~abstract]:\n    !type Item:\n        code <: string\n"
	if baseHasExtra {
		base += "    !type Extra:\n        x <: int\n"
	}
	// a table of the mixed-in application whose fields refer to a field / a type of it
	baseHasRefs := nd.Bool("base-declares-table-with-references")
	if baseHasRefs {
		base += "    !table Order:\n        item <: Item.code\n        whole <: Item\n"
	}
	host := "Shop:\n    -|> Base\n"
	if hostHasItem {
		host += "    !type Item:\n        id <: int\n        label <: string?\n"
	}
	if hostHasOwn {
		host += "    !type Own:\n        o <: int\n"
	}
	if !hostHasItem && !hostHasOwn {
		host += "    ep:\n        ...\n"
	}
	text := base + "\n" + host
	if hostFirst {
		text = host + "\n" + base
	}
	mod, err, crashed, _ := feCompileText(text)
	nd.Assert("mixins:compiles", !crashed && err == nil && mod != nil)
	if crashed || err != nil || mod == nil {
		return
	}
	shop, b := mod.Apps["Shop"], mod.Apps["Base"]
	nd.Assert("mixins:apps", shop != nil && b != nil && len(mod.Apps) == 2)
	if shop == nil || b == nil {
		return
	}
	want := 1
	if hostHasOwn {
		want++
	}
	if baseHasExtra {
		want++
	}
	if baseHasRefs {
		want++
		for _, app := range []*sysl.Application{b, shop} {
			fs := app.Types["Order"].GetRelation().GetAttrDefs()
			item, whole := fs["item"].GetTypeRef().GetRef(), fs["whole"].GetTypeRef().GetRef()
			nd.Assert("mixins:field-reference-in-mixed-in-table", len(fs) == 2 && item != nil && item.GetAppname() == nil &&
				len(item.Path) == 2 && item.Path[0] == "Item" && item.Path[1] == "code")
			nd.Assert("mixins:type-reference-in-mixed-in-table", whole != nil && whole.GetAppname() == nil && len(whole.Path) == 1 && whole.Path[0] == "Item")
		}
	}
	nd.Assert("mixins:exactly-own-plus-mixed-in-types", len(shop.Types) == want)
	item := shop.Types["Item"].GetTuple().GetAttrDefs()
	if hostHasItem {
		nd.Assert("mixins:own-declaration-wins-over-mixed-in-type", len(item) == 2 && item["id"] != nil && item["label"] != nil && item["label"].Opt)
	} else {
		nd.Assert("mixins:mixed-in-type-copied", len(item) == 1 && item["code"] != nil)
	}
	if baseHasExtra {
		nd.Assert("mixins:every-mixed-in-type-copied", shop.Types["Extra"].GetTuple().GetAttrDefs()["x"] != nil)
	}
	if hostHasOwn {
		nd.Assert("mixins:own-type-kept", shop.Types["Own"].GetTuple().GetAttrDefs()["o"] != nil)
	}
	bitem := b.Types["Item"].GetTuple().GetAttrDefs()
	nd.Assert("mixins:mixed-in-application-unchanged", len(bitem) == 1 && bitem["code"] != nil && len(shop.Mixin2) == 1)
}

// events and subscriptions: a publisher's event (with a body or "...") and up to two
// subscribers declared before and/or after it: the subscriber gets an endpoint
// "Pub -> Evt" with the publisher as source and its own statements; the event lists its
// own statements in order and exactly one call per subscriber, wherever the subscriber
// stands in the text.
func Harness_C02_Events() {
	before := nd.Bool("subscriber-before-the-publisher")
	after := nd.Bool("subscriber-after-the-publisher")
	body := nd.IntRange("event-body-statements", 0, 2) // 0: "..."
	text := ""
	if before {
		text += "SubA:\n    Pub -> Evt:\n        handle it\n\n"
	}
	text += "Pub:\n    <-> Evt:\n"
	switch body {
	case 0:
		text += "        ...\n"
	case 1:
		text += "        first step\n"
	default:
		text += "        first step\n        second step\n"
	}
	if after {
		text += "\nSubB:\n    Pub -> Evt:\n        handle it too\n"
	}
	mod, err, crashed, _ := feCompileText(text)
	nd.Assert("events:compiles", !crashed && err == nil && mod != nil)
	if crashed || err != nil || mod == nil {
		return
	}
	pub := mod.Apps["Pub"]
	napps := 1
	for _, sub := range []struct {
		name    string
		present bool
		action  string
	}{{"SubA", before, "handle it"}, {"SubB", after, "handle it too"}} {
		app := mod.Apps[sub.name]
		if !sub.present {
			nd.Assert("events:no-undeclared-subscriber", app == nil)
			continue
		}
		napps++
		nd.Assert("events:subscriber-application", app != nil)
		if app == nil {
			continue
		}
		ep := app.Endpoints["Pub -> Evt"]
		nd.Assert("events:subscription-endpoint", ep != nil && len(app.Endpoints) == 1 && ep.GetSource() != nil &&
			len(ep.Source.Part) == 1 && ep.Source.Part[0] == "Pub")
		if ep != nil {
			nd.Assert("events:subscription-statements", len(ep.Stmt) == 1 && ep.Stmt[0].GetAction().GetAction() == sub.action)
		}
	}
	nd.Assert("events:exactly-the-declared-applications", len(mod.Apps) == napps)
	ev := pub.GetEndpoints()["Evt"]
	nd.Assert("events:event-endpoint", pub != nil && ev != nil && ev.IsPubsub && len(pub.Endpoints) == 1)
	if ev == nil {
		return
	}
	var own []string
	calls := map[string]int{}
	for _, s := range ev.Stmt {
		if c := s.GetCall(); c != nil {
			if len(c.GetTarget().GetPart()) == 1 && c.Endpoint == "Pub -> Evt" {
				calls[c.Target.Part[0]]++
			} else {
				calls["?"]++
			}
			continue
		}
		own = append(own, s.GetAction().GetAction())
	}
	wantOwn := [][]string{{"..."}, {"first step"}, {"first step", "second step"}}[body]
	okOwn := len(own) == len(wantOwn)
	for i := range wantOwn {
		if i < len(own) && own[i] != wantOwn[i] {
			okOwn = false
		}
	}
	nd.Assert("events:own-statements-in-order", okOwn)
	wantCalls := 0
	if before {
		wantCalls++
		nd.Assert("events:one-call-per-subscriber", calls["SubA"] == 1)
	}
	if after {
		wantCalls++
		nd.Assert("events:one-call-per-subscriber", calls["SubB"] == 1)
	}
	nd.Assert("events:no-other-calls", len(calls) == wantCalls)
}

// dotted references with one to three components, with or without the application name,
// to this or another application, in a field and in an endpoint parameter: the compiled
// reference names exactly the components written
//verif:shard-quick 6 2
//verif:shard-thorough 6 2
func Harness_C02_DottedReferences() {
	n := nd.IntRange("components", 1, 3)
	qual := nd.IntRange("qualified-by", 0, 2) // nothing, own application, another application
	inParam := nd.Bool("in-endpoint-parameter")
	comps := []string{"Outer", "inner", "leaf"}[:n]
	ref := ""
	for i, c := range comps {
		if i > 0 {
			ref += "."
		}
		ref += c
	}
	wantApp := ""
	switch qual {
	case 1:
		ref = "App." + ref
		wantApp = "App"
	case 2:
		ref = "Other." + ref
		wantApp = "Other"
	}
	decl := "    !type Outer:\n        inner <:\n            leaf <: int\n"
	text := "App:\n" + decl
	if inParam {
		text += "    e(p <: " + ref + "):\n        ...\n"
	} else {
		text += "    !type User:\n        x <: " + ref + "\n"
	}
	text += "\nOther:\n" + decl
	mod, err, crashed, _ := feCompileText(text)
	nd.Assert("dotted:compiles", !crashed && err == nil && mod != nil)
	if crashed || err != nil || mod == nil {
		return
	}
	var t *sysl.Type
	if inParam {
		ps := mod.Apps["App"].Endpoints["e"].GetParam()
		if len(ps) == 1 {
			t = ps[0].Type
		}
	} else {
		t = mod.Apps["App"].Types["User"].GetTuple().GetAttrDefs()["x"]
	}
	r := t.GetTypeRef().GetRef()
	nd.Assert("dotted:is-a-reference", r != nil)
	if r == nil {
		return
	}
	// an unqualified reference whose first component is the application's own type stays
	// local; a qualified one keeps (or, for the own application, may drop) the application
	// name, but in every case the written components follow in full
	path := r.Path
	app := ""
	if r.Appname != nil && len(r.Appname.Part) == 1 {
		app = r.Appname.Part[0]
	}
	if app == "" && len(path) == n+1 {
		app, path = path[0], path[1:]
	}
	okPath := len(path) == n
	for i := range comps {
		if i < len(path) && path[i] != comps[i] {
			okPath = false
		}
	}
	nd.Assert("dotted:every-component-kept-in-order", okPath)
	nd.Assert("dotted:application-as-written", app == wantApp || (qual == 1 && app == ""))
}
