package parse

// C06 — a failed read or bad file anywhere in the closure fails the compile cleanly.
// Real code executed: (*Parser).collectSpecs error paths under the task model,
// (*Parser).parseSpecs (errgroup fan-out over the specs, compiled-model / foreign /
// syntax error propagation), syslutil.Exitf, pbutil.FromPBStringContents.

import (
	"context"
	"fmt"
	"strings"
	"time"

	"github.com/antlr/antlr4/runtime/Go/antlr"
	"github.com/anz-bank/golden-retriever/retriever"
	parser "github.com/anz-bank/sysl/pkg/grammar"
	"github.com/anz-bank/sysl/pkg/sysl"
	"github.com/anz-bank/sysl/pkg/syslutil"
	"github.com/anz-bank/sysl/pkg/zzverif/nd"
	"github.com/spf13/afero"
	"google.golang.org/protobuf/proto"
)

var c05TFiles = []string{"f0.sysl", "f1.sysl", "f2.sysl", "f3.sysl"}

type c05Reader struct {
	afero.Fs
	imports [][]int
	fail    []bool
	reads   []int
	jitter  bool
}

func (r *c05Reader) index(path string) int {
	idx := string(fileNameToIndex(path))
	for i, f := range c05TFiles {
		if idx == f || idx == "./"+f {
			return i
		}
	}
	return -1
}

func (r *c05Reader) content(i int) string {
	s := ""
	for _, t := range r.imports[i] {
		s += "import " + c05TFiles[t][:2] + "\n"
	}
	return s + "App" + c05TFiles[i][1:2] + ":\n    ...\n"
}

func (r *c05Reader) Read(ctx context.Context, p string) ([]byte, error) {
	b, _, _, err := r.ReadHashBranch(ctx, p)
	return b, err
}
func (r *c05Reader) ReadHash(ctx context.Context, p string) ([]byte, retriever.Hash, error) {
	b, h, _, err := r.ReadHashBranch(ctx, p)
	return b, h, err
}
func (r *c05Reader) ReadHashBranch(ctx context.Context, p string) ([]byte, retriever.Hash, string, error) {
	i := r.index(p)
	if r.jitter {
		time.Sleep(time.Duration((i*7+r.reads[0]*3)%5) * 100 * time.Microsecond)
	}
	if i < 0 {
		return nil, retriever.ZeroHash, "", fmt.Errorf("no such file %s", p)
	}
	r.reads[i]++
	nd.Yield("read-end")
	if r.fail != nil && r.fail[i] {
		return nil, retriever.ZeroHash, "", fmt.Errorf("cannot read %s", c05TFiles[i])
	}
	return []byte(r.content(i)), retriever.ZeroHash, "", nil
}

var c05TImports [][]int

// c05ParseImportsStub stands in for parseImports under the executor.
func c05ParseImportsStub(parent importDef, src sourceCtxHelper, input string) ([]importDef, error) {
	i := -1
	for k, f := range c05TFiles {
		if string(fileNameToIndex(parent.filename)) == f {
			i = k
		}
	}
	var out []importDef
	if i >= 0 {
		for _, t := range c05TImports[i] {
			out = append(out, newImportDef(c05TFiles[t]))
		}
	}
	return out, nil
}

// c05TGraph: file i imports up to two files with arbitrary targets.
func c05TGraph(n int) [][]int {
	g := make([][]int, n)
	for i := 0; i < n; i++ {
		maxImports := 2
		if !nd.Thorough() && i > 0 {
			maxImports = 1 // quick: only the root has two imports
		}
		cnt := nd.IntRange("n"+string(rune('0'+i)), 0, maxImports)
		for j := 0; j < cnt; j++ {
			g[i] = append(g[i], nd.IntRange("i"+string(rune('0'+i))+string(rune('0'+j)), 0, n-1))
		}
	}
	return g
}

func c05Reach(g [][]int, maxDepth int) (reach []bool, order []int) {
	n := len(g)
	dist := make([]int, n)
	for i := range dist {
		dist[i] = -1
	}
	dist[0] = 0
	queue := []int{0}
	for len(queue) > 0 {
		k := queue[0]
		queue = queue[1:]
		for _, t := range g[k] {
			if dist[t] < 0 {
				dist[t] = dist[k] + 1
				queue = append(queue, t)
			}
		}
	}
	reach = make([]bool, n)
	for i := range reach {
		reach[i] = dist[i] >= 0 && (maxDepth <= 0 || dist[i] < maxDepth)
	}
	seen := make([]bool, n)
	var walk func(k int)
	walk = func(k int) {
		if seen[k] || !reach[k] {
			return
		}
		seen[k] = true
		order = append(order, k)
		for _, t := range g[k] {
			walk(t)
		}
	}
	walk(0)
	return
}


// whichever files fail to read, and whenever: an ImportError naming a failing file, no model
//verif:shard-quick 16 5
//verif:shard-thorough 16 6
func Harness_C06_ReadFailures() {
	n := 3
	if nd.Thorough() {
		n = 4
	}
	g := c05TGraph(n)
	c05TImports = g
	fail := make([]bool, n)
	for i := range fail {
		fail[i] = nd.Bool("read-fails." + c05TFiles[i])
	}
	rounds := 1
	if nd.Replaying() {
		rounds = 50
	} else {
		nd.TaskModel()
		nd.PreemptionBound(1)
		if nd.Thorough() {
			nd.PreemptionBound(2)
		}
		nd.Stub("github.com/anz-bank/sysl/pkg/parse.parseImports", c05ParseImportsStub)
	}
	// which failing files are reachable through files that can be read
	reachFail := false
	seen := make([]bool, n)
	var walk func(k int)
	walk = func(k int) {
		if seen[k] {
			return
		}
		seen[k] = true
		if fail[k] {
			reachFail = true
			return
		}
		for _, t := range g[k] {
			walk(t)
		}
	}
	walk(0)
	for round := 0; round < rounds; round++ {
		r := &c05Reader{imports: g, fail: fail, reads: make([]int, n), jitter: nd.Replaying()}
		p := NewParser()
		retrieved := retrievedList{l: map[retrievedListIndex]*fileInfo{}}
		var err error
		failed, _ := nd.Recovered(func() {
			err = p.collectSpecs(context.Background(), newImportDef(c05TFiles[0]), r, &retrieved, 0, 0)
		})
		if !reachFail {
			nd.Assert("read:no-failure-no-error", !failed && err == nil)
			continue
		}
		named := false
		if err != nil {
			for i := 0; i < n; i++ {
				if fail[i] && r.reads[i] > 0 && strings.Contains(err.Error(), c05TFiles[i]) {
					named = true
				}
			}
		}
		ex, isExit := err.(syslutil.Exit)
		nd.Assert("read:failed-read-fails-the-compile-cleanly", !failed && err != nil && isExit && ex.Code == ImportError && named)
	}
}

// ---- parseSpecs: a bad file among the specs ----

const (
	c06OK = iota
	c06Syntax
	c06PBOK
	c06PBBad
	c06Foreign
)

func c06Spec(i, outcome int) srcInput {
	tag := string(rune('0' + i))
	switch outcome {
	case c06Syntax:
		return srcInput{src: newImportDef("s" + tag + ".sysl"), input: "App" + tag + " SYNTAX :: ::\n  !!!\n"}
	case c06PBOK:
		return srcInput{src: newImportDef("m" + tag + ".pb.json"), input: "{}"}
	case c06PBBad:
		return srcInput{src: newImportDef("m" + tag + ".pb.json"), input: "BAD{"}
	case c06Foreign:
		return srcInput{src: newImportDef("x" + tag + ".yaml"), input: ":::garbage"}
	}
	return srcInput{src: newImportDef("s" + tag + ".sysl"), input: "App" + tag + ":\n    ...\n"}
}

// stand-ins for the reflection / ANTLR driven stages under the executor
func c06StubJSONUnmarshal(b []byte, m proto.Message) error {
	if strings.HasPrefix(string(b), "BAD") {
		return fmt.Errorf("proto: syntax error")
	}
	return nil
}
func c06StubImportForeign(def importDef, input antlr.CharStream) (antlr.CharStream, error) {
	if strings.HasSuffix(def.filename, ".yaml") {
		return nil, syslutil.Exitf(ParseError, fmt.Sprintf("%s has unknown format", def.filename))
	}
	return input, nil
}
func c06StubParseString(filename string, input antlr.CharStream) (parser.ISysl_fileContext, error) {
	if strings.Contains(input.GetText(0, input.Size()), "SYNTAX") {
		return nil, syslutil.Exitf(ParseError, fmt.Sprintf("%s has syntax errors\n", filename))
	}
	return nil, nil
}
func c06StubWalk(p *antlr.ParseTreeWalker, listener antlr.ParseTreeListener, t antlr.Tree) {}
func c06StubMerge(dst, src interface{}, opts ...func(*mergoConfig)) error               { return nil }

type mergoConfig struct{}

// any bad file among the specs: an error that names it and no model; none: a model
func Harness_C06_BadSpec() {
	n := 2
	if nd.Thorough() {
		n = 3
	}
	specs := make([]srcInput, n)
	outcomes := make([]int, n)
	for i := range specs {
		outcomes[i] = nd.IntRange("outcome."+string(rune('0'+i)), 0, 4)
		specs[i] = c06Spec(i, outcomes[i])
	}
	if !nd.Replaying() {
		nd.Stub("google.golang.org/protobuf/encoding/protojson.Unmarshal", c06StubJSONUnmarshal)
		nd.Stub("github.com/anz-bank/sysl/pkg/parse.importForeign", c06StubImportForeign)
		nd.Stub("github.com/anz-bank/sysl/pkg/parse.parseString", c06StubParseString)
		nd.Stub("(*github.com/antlr/antlr4/runtime/Go/antlr.ParseTreeWalker).Walk", c06StubWalk)
		nd.Stub("github.com/imdario/mergo.Merge", c06StubMerge)
	}
	p := NewParser()
	listener := NewTreeShapeListener()
	listener.lint()
	var mod *sysl.Module
	var err error
	failed, msg := nd.Recovered(func() { mod, err = p.parseSpecs(specs, listener) })
	nd.Note(msg)
	firstBad := -1
	for i, o := range outcomes {
		if (o == c06Syntax || o == c06PBBad || o == c06Foreign) && firstBad < 0 {
			firstBad = i
		}
	}
	if firstBad < 0 {
		nd.Assert("spec:all-good-gives-a-model", !failed && err == nil && mod != nil)
		return
	}
	named := false
	if err != nil {
		for i, o := range outcomes {
			if (o == c06Syntax || o == c06PBBad || o == c06Foreign) && strings.Contains(err.Error(), specs[i].src.filename) {
				named = true
			}
		}
	}
	nd.Assert("spec:bad-file-fails-the-compile-cleanly", !failed && mod == nil && err != nil && named)
}
