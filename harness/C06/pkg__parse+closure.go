//go:build verif

// C06 (end to end) — a file with syntax errors anywhere in the import closure, behind
// shared imports, duplicate import lines, self imports and cycles: the real pipeline
// parse.Parser.Parse (retrieval, import pre-parse, flattening, ANTLR parse of every file,
// merge) returns an error that names a bad file and no model; a closure without a bad
// file compiles.
package parse

import (
	"strings"

	"github.com/anz-bank/sysl/pkg/zzverif/nd"
)

var c06Names = []string{"a", "f1", "f2", "f3"}

// c06Bad: valid import lines followed by text the grammar rejects
// or that stops in the middle of a declaration (a truncated file)
var c06Bad = []string{"App%d:\n    !type\n", "App%d:\n    e:\n        <- <-\n", "App%d:\n    ...\n\nOther%d:\n", "App%d:\n    ...\n\nOther%d", "App%d:\n    e:\n"}

//verif:shard-quick 16 3
//verif:shard-thorough 16 4
func Harness_C06_BadFileInClosure() {
	n := len(c06Names)
	g := make([][]int, n)
	g[0] = []int{1, 2}
	// f2 lists two imports (shared with the root, itself, the root, or the file only it reaches)
	g[2] = []int{nd.IntRange("f2-first-import", 0, 3), nd.IntRange("f2-second-import", 0, 3)}
	if nd.Thorough() {
		if t := nd.IntRange("f1-import", 0, 3); t != 1 {
			g[1] = []int{t}
		}
		if t := nd.IntRange("f3-import", 0, 3); t != 3 {
			g[3] = []int{t}
		}
	}
	bad := nd.IntRange("bad-file", 0, 3) // 0: none
	kind := 0
	if bad > 0 {
		kind = nd.IntRange("bad-how", 0, len(c06Bad)-1)
	}
	files := map[string]string{}
	for i, name := range c06Names {
		text := ""
		for _, t := range g[i] {
			text += "import " + c06Names[t] + "\n"
		}
		if i == bad && bad > 0 {
			text += strings.ReplaceAll(c06Bad[kind], "%d", string(rune('0'+i)))
		} else {
			text += "App" + string(rune('0'+i)) + ":\n    ...\n"
		}
		files[name+".sysl"] = text
	}
	// reachability from the root
	reach := make([]bool, n)
	var walk func(k int)
	walk = func(k int) {
		if reach[k] {
			return
		}
		reach[k] = true
		for _, t := range g[k] {
			walk(t)
		}
	}
	walk(0)
	mod, err, crashed, msg := feCompile(files, "a.sysl")
	nd.Note(msg)
	if err != nil {
		nd.Note("err: " + err.Error())
	}
	nd.Assert("closure:no-crash-no-hang", !crashed)
	if crashed {
		return
	}
	if bad > 0 && reach[bad] {
		nd.Assert("closure:bad-file-anywhere-fails-the-compile", err != nil && mod == nil)
		if err != nil {
			nd.Assert("closure:error-names-the-bad-file", strings.Contains(err.Error(), c06Names[bad]+".sysl"))
		}
	} else {
		nd.Assert("closure:no-bad-file-reachable-compiles", err == nil && mod != nil)
		if mod != nil {
			cnt := 0
			for i := range c06Names {
				if reach[i] && mod.Apps["App"+string(rune('0'+i))] != nil {
					cnt++
				}
			}
			want := 0
			for i := range reach {
				if reach[i] {
					want++
				}
			}
			nd.Assert("closure:every-reachable-file-contributes", cnt == want && len(mod.Apps) == want)
		}
	}
}

// file names may contain '%' (URL-encoded names, "100%sure"): the error still names the file
func Harness_C06_PercentInNames() {
	name := []string{"b%sx", "100%sure", "a%20b", "p%"}[nd.IntRange("name", 0, 3)]
	how := nd.IntRange("fails-by", 0, 2) // missing, syntax error, root itself bad
	files := map[string]string{"a.sysl": "import " + name + "\nApp:\n    ...\n"}
	root := "a.sysl"
	switch how {
	case 1:
		files[name+".sysl"] = "B:\n    !type\n"
	case 2:
		files = map[string]string{name + ".sysl": "B:\n    !type\n"}
		root = name + ".sysl"
	}
	mod, err, crashed, msg := feCompile(files, root)
	nd.Note(msg)
	nd.Assert("percent:no-crash", !crashed)
	nd.Assert("percent:fails", err != nil && mod == nil)
	if err != nil {
		nd.Assert("percent:error-names-the-file-as-written", strings.Contains(err.Error(), name+".sysl"))
	}
}
