package exporter

// C20 — export on untidy models.

import (
	"github.com/anz-bank/sysl/pkg/syslwrapper"
	"github.com/anz-bank/sysl/pkg/zzverif/nd"
)

func Harness_C20_ExportUntidy() {
	// shapes that syslwrapper.AppMapper.MapType produces for untidy models
	shape := nd.IntRange("shape", 0, 2)
	label := ""
	t := &syslwrapper.Type{Type: "tuple", Properties: map[string]*syslwrapper.Type{}}
	switch shape {
	case 0:
		label = "export:reference-to-undefined-type"
		t.Properties["r"] = &syslwrapper.Type{Type: "ref", Reference: "App.Ghost"}
	case 1:
		label = "export:reference-with-empty-application-part"
		t.Properties["r"] = &syslwrapper.Type{Type: "ref", Reference: ".Ghost"}
	case 2:
		label = "export:sequence-of-nothing"
		t.Properties["l"] = &syslwrapper.Type{Type: "list", Items: []*syslwrapper.Type{nil}}
	}
	// the application may also have endpoints that are not REST operations: a subscription
	// ("Pub -> Evt"), a plain endpoint whose name has blanks, a one-word endpoint
	epName := []string{"GET /x", "Pub -> Evt", "do something", "e", "PATCH /x"}[nd.IntRange("endpoint-name", 0, 4)]
	if epName != "GET /x" {
		label = "export:endpoint-that-is-not-a-rest-operation"
	}
	app := &syslwrapper.App{Name: "App", Attributes: map[string]string{}, Types: map[string]*syslwrapper.Type{"T": t},
		Endpoints: map[string]*syslwrapper.Endpoint{"e": {Path: epName, Params: map[string]*syslwrapper.Parameter{},
			Response: map[string]*syslwrapper.Parameter{"ok": {Name: "ok"}}}}}
	ex := MakeOpenAPI3Exporter(map[string]*syslwrapper.App{"App": app}, nil)
	failed, _ := nd.Recovered(func() { ex.GenerateOpenAPI3(app) })
	nd.Assert(label, !failed)
}
