package exporter

// C20 — export on untidy models.

import (
	"github.com/anz-bank/sysl/pkg/syslwrapper"
	"github.com/anz-bank/sysl/pkg/zzverif/nd"
)

func Harness_C20_ExportUntidy() {
	// shapes that syslwrapper.AppMapper.MapType produces for untidy models
	shape := nd.IntRange("shape", 0, 2)
	label := ""
	t := &syslwrapper.Type{Type: "tuple", Properties: map[string]*syslwrapper.Type{}}
	switch shape {
	case 0:
		label = "export:reference-to-undefined-type"
		t.Properties["r"] = &syslwrapper.Type{Type: "ref", Reference: "App.Ghost"}
	case 1:
		label = "export:reference-with-empty-application-part"
		t.Properties["r"] = &syslwrapper.Type{Type: "ref", Reference: ".Ghost"}
	case 2:
		label = "export:sequence-of-nothing"
		t.Properties["l"] = &syslwrapper.Type{Type: "list", Items: []*syslwrapper.Type{nil}}
	}
	app := &syslwrapper.App{Name: "App", Attributes: map[string]string{}, Types: map[string]*syslwrapper.Type{"T": t},
		Endpoints: map[string]*syslwrapper.Endpoint{"e": {Path: "GET /x", Params: map[string]*syslwrapper.Parameter{},
			Response: map[string]*syslwrapper.Parameter{"ok": {Name: "ok"}}}}}
	ex := MakeOpenAPI3Exporter(map[string]*syslwrapper.App{"App": app}, nil)
	failed, _ := nd.Recovered(func() { ex.GenerateOpenAPI3(app) })
	nd.Assert(label, !failed)
}
