package exporter

// C20 — export on untidy models.

import (
	"github.com/anz-bank/sysl/pkg/syslwrapper"
	"github.com/anz-bank/sysl/pkg/zzverif/nd"
)

func Harness_C20_ExportUntidy() {
	shape := nd.IntRange("shape", 0, 3)
	label := ""
	t := &syslwrapper.Type{Type: "tuple", Properties: map[string]*syslwrapper.Type{}}
	switch shape {
	case 0:
		label = "export:reference-without-application-part"
		t.Properties["r"] = &syslwrapper.Type{Type: "ref", Reference: "JustAName"}
	case 1:
		label = "export:list-without-item-type"
		t.Properties["l"] = &syslwrapper.Type{Type: "list"}
	case 2:
		label = "export:nil-property"
		t.Properties["n"] = nil
	case 3:
		label = "export:empty-reference"
		t.Properties["r"] = &syslwrapper.Type{Type: "ref", Reference: ""}
	}
	app := &syslwrapper.App{Name: "App", Attributes: map[string]string{}, Types: map[string]*syslwrapper.Type{"T": t},
		Endpoints: map[string]*syslwrapper.Endpoint{"e": {Path: "GET /x", Params: map[string]*syslwrapper.Parameter{},
			Response: map[string]*syslwrapper.Parameter{"ok": {Name: "ok"}}}}}
	ex := MakeOpenAPI3Exporter(map[string]*syslwrapper.App{"App": app}, nil)
	failed, _ := nd.Recovered(func() { ex.GenerateOpenAPI3(app) })
	nd.Assert(label, !failed)
}
