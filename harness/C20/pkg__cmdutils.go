package cmdutils

// C20 — sequence diagrams on untidy models: calls to undefined applications / endpoints.

import (
	sysl "github.com/anz-bank/sysl/pkg/sysl"
	"github.com/anz-bank/sysl/pkg/syslutil"
	"github.com/anz-bank/sysl/pkg/zzverif/nd"
)

type c20Labeler struct{}

func (c20Labeler) LabelEndpoint(p *EndpointLabelerParam) string { return p.EndpointName }
func (c20Labeler) LabelApp(appName, controls string, attrs map[string]*sysl.Attribute) string {
	return appName
}

// c20Wrap nests a statement inside the block statement kind k (0 = not nested), after or
// before another statement of the block.
func c20Wrap(k int, s *sysl.Statement, last bool) *sysl.Statement {
	act := &sysl.Statement{Stmt: &sysl.Statement_Action{Action: &sysl.Action{Action: "step"}}}
	in := []*sysl.Statement{act, s}
	if !last {
		in = []*sysl.Statement{s, act}
	}
	switch k {
	case 1:
		return &sysl.Statement{Stmt: &sysl.Statement_Cond{Cond: &sysl.Cond{Test: "c", Stmt: in}}}
	case 2:
		return &sysl.Statement{Stmt: &sysl.Statement_Loop{Loop: &sysl.Loop{Mode: sysl.Loop_UNTIL, Criterion: "done", Stmt: in}}}
	case 3:
		return &sysl.Statement{Stmt: &sysl.Statement_LoopN{LoopN: &sysl.LoopN{Count: 2, Stmt: in}}}
	case 4:
		return &sysl.Statement{Stmt: &sysl.Statement_Foreach{Foreach: &sysl.Foreach{Collection: "c", Stmt: in}}}
	case 5:
		return &sysl.Statement{Stmt: &sysl.Statement_Group{Group: &sysl.Group{Title: "g", Stmt: in}}}
	case 6:
		return &sysl.Statement{Stmt: &sysl.Statement_Alt{Alt: &sysl.Alt{Choice: []*sysl.Alt_Choice{
			{Cond: "x", Stmt: []*sysl.Statement{act}},
			{Cond: "y", Stmt: in}}}}}
	}
	return s
}

func Harness_C20_SequenceUntidy() {
	call := func(app, ep string) *sysl.Statement {
		return &sysl.Statement{Stmt: &sysl.Statement_Call{Call: &sysl.Call{Target: &sysl.AppName{Part: []string{app}}, Endpoint: ep}}}
	}
	tApp := []string{"B", "Nowhere"}[nd.IntRange("target-app", 0, 1)]
	tEp := []string{"e", "missing"}[nd.IntRange("target-endpoint", 0, 1)]
	startEp := []string{"e", "missing"}[nd.IntRange("start-endpoint", 0, 1)]
	// the call sits directly in the start endpoint or inside a block statement of any kind,
	// last in its block or not, the block last in the endpoint or not; the callee returns a
	// payload or nothing
	kind := nd.IntRange("call-inside", 0, 6)
	lastInBlock := nd.Bool("call-last-in-block")
	aStmts := []*sysl.Statement{c20Wrap(kind, call(tApp, tEp), lastInBlock)}
	if nd.Bool("statement-after") {
		aStmts = append(aStmts, &sysl.Statement{Stmt: &sysl.Statement_Action{Action: &sysl.Action{Action: "after"}}})
	}
	bStmts := []*sysl.Statement{{Stmt: &sysl.Statement_Action{Action: &sysl.Action{Action: "x"}}}}
	if nd.Bool("callee-returns") {
		bStmts = append(bStmts, &sysl.Statement{Stmt: &sysl.Statement_Ret{Ret: &sysl.Return{Payload: "ok"}}})
	}
	mod := &sysl.Module{Apps: map[string]*sysl.Application{
		"A": {Name: &sysl.AppName{Part: []string{"A"}}, Endpoints: map[string]*sysl.Endpoint{"e": {Name: "e", Stmt: aStmts}}},
		"B": {Name: &sysl.AppName{Part: []string{"B"}}, Endpoints: map[string]*sysl.Endpoint{"e": {Name: "e", Stmt: bStmts}}},
	}}
	w := MakeSequenceDiagramWriter(false)
	v := MakeSequenceDiagramVisitor(c20Labeler{}, c20Labeler{}, w, mod, "A", "", nil)
	e := &EndpointCollectionElement{entries: []*entry{{appName: "A", endpointName: startEp}},
		uptos: syslutil.MakeStrSet(), blackboxes: map[string]*Upto{}}
	var err error
	failed, _ := nd.Recovered(func() { err = e.Accept(v) })
	_ = err
	switch {
	case startEp == "missing":
		nd.Assert("sd:undefined-start-endpoint-is-an-error", !failed && err != nil)
	case tApp == "Nowhere":
		nd.Assert("sd:call-to-undefined-application", !failed)
	case tEp == "missing":
		nd.Assert("sd:call-to-undefined-endpoint", !failed)
	default:
		nd.Assert("sd:tidy-model", !failed && err == nil)
	}
}

// the "blackboxes" attribute of an application or endpoint is a list of [target, comment]
// entries; an entry with only a target (or none) is untidy but compiles
func Harness_C20_BlackboxEntries() {
	str := func(s string) *sysl.Attribute { return &sysl.Attribute{Attribute: &sysl.Attribute_S{S: s}} }
	arr := func(es ...*sysl.Attribute) *sysl.Attribute {
		return &sysl.Attribute{Attribute: &sysl.Attribute_A{A: &sysl.Attribute_Array{Elt: es}}}
	}
	var entries []*sysl.Attribute
	n := nd.IntRange("entries", 0, 2)
	for i := 0; i < n; i++ {
		switch nd.IntRange("entry"+string(rune('0'+i))+"-elements", 0, 3) {
		case 0:
			entries = append(entries, arr())
		case 1:
			entries = append(entries, arr(str("B <- e")))
		case 2:
			entries = append(entries, arr(str("B <- e"), str("a comment")))
		default:
			entries = append(entries, arr(str("B <- e"), str("a comment"), str("extra")))
		}
	}
	uptos := map[string]*Upto{}
	failed, msg := nd.Recovered(func() {
		TransformBlackboxesToUptos(uptos, TransformBlackBoxes(entries), BBApplication)
	})
	nd.Note(msg)
	nd.Assert("sd:blackbox-entry-of-any-length", !failed)
}
