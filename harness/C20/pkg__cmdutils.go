package cmdutils

// C20 — sequence diagrams on untidy models: calls to undefined applications / endpoints.

import (
	sysl "github.com/anz-bank/sysl/pkg/sysl"
	"github.com/anz-bank/sysl/pkg/syslutil"
	"github.com/anz-bank/sysl/pkg/zzverif/nd"
)

type c20Labeler struct{}

func (c20Labeler) LabelEndpoint(p *EndpointLabelerParam) string { return p.EndpointName }
func (c20Labeler) LabelApp(appName, controls string, attrs map[string]*sysl.Attribute) string {
	return appName
}

func Harness_C20_SequenceUntidy() {
	call := func(app, ep string) *sysl.Statement {
		return &sysl.Statement{Stmt: &sysl.Statement_Call{Call: &sysl.Call{Target: &sysl.AppName{Part: []string{app}}, Endpoint: ep}}}
	}
	tApp := []string{"B", "Nowhere"}[nd.IntRange("target-app", 0, 1)]
	tEp := []string{"e", "missing"}[nd.IntRange("target-endpoint", 0, 1)]
	startEp := []string{"e", "missing"}[nd.IntRange("start-endpoint", 0, 1)]
	mod := &sysl.Module{Apps: map[string]*sysl.Application{
		"A": {Name: &sysl.AppName{Part: []string{"A"}}, Endpoints: map[string]*sysl.Endpoint{"e": {Name: "e", Stmt: []*sysl.Statement{call(tApp, tEp)}}}},
		"B": {Name: &sysl.AppName{Part: []string{"B"}}, Endpoints: map[string]*sysl.Endpoint{"e": {Name: "e", Stmt: []*sysl.Statement{
			{Stmt: &sysl.Statement_Action{Action: &sysl.Action{Action: "x"}}}}}}},
	}}
	w := MakeSequenceDiagramWriter(false)
	v := MakeSequenceDiagramVisitor(c20Labeler{}, c20Labeler{}, w, mod, "A", "", nil)
	e := &EndpointCollectionElement{entries: []*entry{{appName: "A", endpointName: startEp}},
		uptos: syslutil.MakeStrSet(), blackboxes: map[string]*Upto{}}
	var err error
	failed, _ := nd.Recovered(func() { err = e.Accept(v) })
	_ = err
	switch {
	case startEp == "missing":
		nd.Assert("sd:undefined-start-endpoint-is-an-error", !failed && err != nil)
	case tApp == "Nowhere":
		nd.Assert("sd:call-to-undefined-application", !failed)
	case tEp == "missing":
		nd.Assert("sd:call-to-undefined-endpoint", !failed)
	default:
		nd.Assert("sd:tidy-model", !failed && err == nil)
	}
}
