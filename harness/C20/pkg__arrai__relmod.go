package relmod

// C20 — the relational model on untidy models: refuse with an error, do not crash.

import (
	"context"

	"github.com/anz-bank/sysl/pkg/sysl"
	"github.com/anz-bank/sysl/pkg/zzverif/nd"
)

func Harness_C20_RelmodUntidy() {
	shape := nd.IntRange("shape", 2, 3) // shapes 0 and 1 cannot come out of the compiler
	label := ""
	app := &sysl.Application{Name: &sysl.AppName{Part: []string{"App"}}, Endpoints: map[string]*sysl.Endpoint{}}
	switch shape {
	case 0:
		label = "relmod:patterns-attribute-that-is-not-an-array"
		app.Attrs = map[string]*sysl.Attribute{"patterns": {Attribute: &sysl.Attribute_S{S: "oops"}}}
	case 1:
		label = "relmod:event-endpoint-name-without-arrow"
		app.Endpoints["ev"] = &sysl.Endpoint{Name: "ev", Source: &sysl.AppName{Part: []string{"Src"}}}
	case 2:
		label = "relmod:empty-application"
	case 3:
		label = "relmod:call-to-undefined-application"
		app.Endpoints["e"] = &sysl.Endpoint{Name: "e", Stmt: []*sysl.Statement{{Stmt: &sysl.Statement_Call{Call: &sysl.Call{
			Target: &sysl.AppName{Part: []string{"Ghost"}}, Endpoint: "x"}}}}}
	}
	s := &Schema{}
	failed, _ := nd.Recovered(func() { normalizeApp(context.Background(), s, app) })
	nd.Assert(label, !failed)
}
