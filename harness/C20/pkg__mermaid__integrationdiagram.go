//go:build verif

// C20 — Mermaid integration diagrams ("sysl diagram -i") on untidy models.
package integrationdiagram

import (
	"github.com/anz-bank/sysl/pkg/sysl"
	"github.com/anz-bank/sysl/pkg/zzverif/nd"
)

func Harness_C20_MermaidIntegrationUntidy() {
	call := func(app, ep string) *sysl.Statement {
		return &sysl.Statement{Stmt: &sysl.Statement_Call{Call: &sysl.Call{Target: &sysl.AppName{Part: []string{app}}, Endpoint: ep}}}
	}
	tApp := []string{"B", "Nowhere"}[nd.IntRange("target-app", 0, 1)]
	tEp := []string{"e", "missing"}[nd.IntRange("target-endpoint", 0, 1)]
	which := nd.IntRange("diagram", 0, 2)
	mod := &sysl.Module{Apps: map[string]*sysl.Application{
		"A": {Name: &sysl.AppName{Part: []string{"A"}}, Endpoints: map[string]*sysl.Endpoint{"e": {Name: "e", Stmt: []*sysl.Statement{call(tApp, tEp)}}}},
		"B": {Name: &sysl.AppName{Part: []string{"B"}}, Endpoints: map[string]*sysl.Endpoint{"e": {Name: "e", Stmt: []*sysl.Statement{call("A", "e")}}}},
		"C": {Name: &sysl.AppName{Part: []string{"C"}}},
	}}
	failed, msg := nd.Recovered(func() {
		switch which {
		case 0:
			GenerateFullIntegrationDiagram(mod) //nolint:errcheck
		case 1:
			GenerateIntegrationDiagram(mod, "A") //nolint:errcheck
		default:
			GenerateMultipleAppIntegrationDiagram(mod, []string{"A", "Ghost"}) //nolint:errcheck
		}
	})
	nd.Note(msg)
	if tApp == "Nowhere" {
		nd.Assert("mermaid-ints:call-to-undefined-application", !failed)
	} else {
		nd.Assert("mermaid-ints:call-to-undefined-endpoint-or-tidy", !failed)
	}
}
