package database

// C20 — database scripts on untidy models: foreign keys to tables/columns that do
// not exist, short reference paths, reference cycles.

import (
	"github.com/anz-bank/sysl/pkg/sysl"
	"github.com/anz-bank/sysl/pkg/zzverif/nd"
)

func Harness_C20_DatabaseUntidy() {
	loc := func(l int) *sysl.SourceContext {
		return &sysl.SourceContext{Start: &sysl.SourceContext_Location{Line: int32(l)}}
	}
	prim := func(l int) *sysl.Type {
		return &sysl.Type{Type: &sysl.Type_Primitive_{Primitive: sysl.Type_INT}, SourceContext: loc(l)}
	}
	ref := func(l int, path ...string) *sysl.Type {
		return &sysl.Type{Type: &sysl.Type_TypeRef{TypeRef: &sysl.ScopedRef{Ref: &sysl.Scope{Path: path}}}, SourceContext: loc(l)}
	}
	tbl := func(l int, cols map[string]*sysl.Type) *sysl.Type {
		return &sysl.Type{Type: &sysl.Type_Relation_{Relation: &sysl.Type_Relation{AttrDefs: cols}}, SourceContext: loc(l)}
	}
	shape := nd.IntRange("shape", 0, 4)
	tables := map[string]*sysl.Type{"ta": tbl(1, map[string]*sysl.Type{"id": prim(2)})}
	label := ""
	switch shape {
	case 0:
		label = "db:tidy"
		tables["tb"] = tbl(10, map[string]*sysl.Type{"id": prim(11), "r": ref(12, "ta", "id")})
	case 1:
		label = "db:reference-to-undefined-table"
		tables["tb"] = tbl(10, map[string]*sysl.Type{"id": prim(11), "r": ref(12, "ghost", "id")})
	case 2:
		label = "db:reference-to-undefined-column"
		tables["tb"] = tbl(10, map[string]*sysl.Type{"id": prim(11), "r": ref(12, "ta", "nope")})
	case 3:
		label = "db:reference-path-of-length-one"
		tables["tb"] = tbl(10, map[string]*sysl.Type{"id": prim(11), "r": ref(12, "ta")})
	case 4:
		label = "db:reference-cycle"
		tables["tb"] = tbl(10, map[string]*sysl.Type{"id": prim(11), "r": ref(12, "tc", "id")})
		tables["tc"] = tbl(20, map[string]*sysl.Type{"id": prim(21), "r": ref(22, "tb", "id")})
	}
	nd.BudgetDepth(120)
	failed, _ := nd.Recovered(func() {
		v := MakeDatabaseScriptView("t", nil)
		v.GenerateDatabaseScriptCreate(tables, "postgres", "App")
	})
	nd.Assert(label, !failed)
}
