package database

// C20 — database scripts on untidy models: foreign keys to tables/columns that do
// not exist, short reference paths, reference cycles.

import (
	"github.com/anz-bank/sysl/pkg/sysl"
	"github.com/anz-bank/sysl/pkg/zzverif/nd"
)

func Harness_C20_DatabaseUntidy() {
	loc := func(l int) *sysl.SourceContext {
		return &sysl.SourceContext{Start: &sysl.SourceContext_Location{Line: int32(l)}}
	}
	prim := func(l int) *sysl.Type {
		return &sysl.Type{Type: &sysl.Type_Primitive_{Primitive: sysl.Type_INT}, SourceContext: loc(l)}
	}
	ref := func(l int, path ...string) *sysl.Type {
		return &sysl.Type{Type: &sysl.Type_TypeRef{TypeRef: &sysl.ScopedRef{Ref: &sysl.Scope{Path: path}}}, SourceContext: loc(l)}
	}
	tbl := func(l int, cols map[string]*sysl.Type) *sysl.Type {
		return &sysl.Type{Type: &sysl.Type_Relation_{Relation: &sysl.Type_Relation{AttrDefs: cols}}, SourceContext: loc(l)}
	}
	shape := nd.IntRange("shape", 0, 4)
	tables := map[string]*sysl.Type{"ta": tbl(1, map[string]*sysl.Type{"id": prim(2)})}
	label := ""
	switch shape {
	case 0:
		label = "db:tidy"
		tables["tb"] = tbl(10, map[string]*sysl.Type{"id": prim(11), "r": ref(12, "ta", "id")})
	case 1:
		label = "db:reference-to-undefined-table"
		tables["tb"] = tbl(10, map[string]*sysl.Type{"id": prim(11), "r": ref(12, "ghost", "id")})
	case 2:
		label = "db:reference-to-undefined-column"
		tables["tb"] = tbl(10, map[string]*sysl.Type{"id": prim(11), "r": ref(12, "ta", "nope")})
	case 3:
		label = "db:reference-path-of-length-one"
		tables["tb"] = tbl(10, map[string]*sysl.Type{"id": prim(11), "r": ref(12, "ta")})
	case 4:
		label = "db:reference-cycle"
		tables["tb"] = tbl(10, map[string]*sysl.Type{"id": prim(11), "r": ref(12, "tc", "id")})
		tables["tc"] = tbl(20, map[string]*sysl.Type{"id": prim(21), "r": ref(22, "tb", "id")})
	}
	nd.BudgetDepth(120)
	failed, _ := nd.Recovered(func() {
		v := MakeDatabaseScriptView("t", nil)
		v.GenerateDatabaseScriptCreate(tables, "postgres", "App")
	})
	nd.Assert(label, !failed)
}

// Delta scripts between two versions of one table whose key columns come and go: each of
// the columns id, x is absent, a plain column or a key column in either version (so the new
// version may have no primary key at all, or the old one none). The command ends without a crash.
//
//verif:shard-quick 4 4
//verif:shard-thorough 4 4
func Harness_C20_DatabaseDeltaKeys() {
	loc := func(l int) *sysl.SourceContext {
		return &sysl.SourceContext{Start: &sysl.SourceContext_Location{Line: int32(l)}}
	}
	col := func(l int, state int) *sysl.Type {
		t := &sysl.Type{Type: &sysl.Type_Primitive_{Primitive: sysl.Type_INT}, SourceContext: loc(l)}
		if state == 2 {
			t.Attrs = map[string]*sysl.Attribute{"patterns": {Attribute: &sysl.Attribute_A{A: &sysl.Attribute_Array{
				Elt: []*sysl.Attribute{{Attribute: &sysl.Attribute_S{S: "pk"}}}}}}}
		}
		return t
	}
	version := func(tag string) *sysl.Application {
		cols := map[string]*sysl.Type{"v": col(5, 1)}
		if s := nd.IntRange(tag+".id", 0, 2); s > 0 {
			cols["id"] = col(2, s)
		}
		if s := nd.IntRange(tag+".x", 0, 2); s > 0 {
			cols["x"] = col(3, s)
		}
		return &sysl.Application{Types: map[string]*sysl.Type{
			"ta": {Type: &sysl.Type_Relation_{Relation: &sysl.Type_Relation{AttrDefs: cols}}, SourceContext: loc(1)},
		}}
	}
	oldApp := version("old")
	newApp := version("new")
	v := MakeDatabaseScriptView("t", nil)
	failed, _ := nd.Recovered(func() {
		_ = v.ProcessModSysls(map[string]*sysl.Application{"App": oldApp}, map[string]*sysl.Application{"App": newApp}, []string{"App"}, "out", "postgres")
	})
	nd.Assert("db-delta:keys-come-and-go-no-crash", !failed)
}
