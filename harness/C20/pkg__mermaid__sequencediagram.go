//go:build verif

// C20 — Mermaid sequence diagrams ("sysl diagram -s") on untidy models: calls to
// undefined applications / endpoints end with a diagram or an error, not a panic.
package sequencediagram

import (
	"github.com/anz-bank/sysl/pkg/sysl"
	"github.com/anz-bank/sysl/pkg/zzverif/nd"
)

func Harness_C20_MermaidSequenceUntidy() {
	call := func(app, ep string) *sysl.Statement {
		return &sysl.Statement{Stmt: &sysl.Statement_Call{Call: &sysl.Call{Target: &sysl.AppName{Part: []string{app}}, Endpoint: ep}}}
	}
	tApp := []string{"B", "Nowhere"}[nd.IntRange("target-app", 0, 1)]
	tEp := []string{"e", "missing"}[nd.IntRange("target-endpoint", 0, 1)]
	startEp := []string{"e", "missing"}[nd.IntRange("start-endpoint", 0, 1)]
	stmt := call(tApp, tEp)
	if nd.Bool("call-inside-if") {
		stmt = &sysl.Statement{Stmt: &sysl.Statement_Cond{Cond: &sysl.Cond{Test: "c", Stmt: []*sysl.Statement{stmt}}}}
	}
	mod := &sysl.Module{Apps: map[string]*sysl.Application{
		"A": {Name: &sysl.AppName{Part: []string{"A"}}, Endpoints: map[string]*sysl.Endpoint{"e": {Name: "e", Stmt: []*sysl.Statement{stmt}}}},
		"B": {Name: &sysl.AppName{Part: []string{"B"}}, Endpoints: map[string]*sysl.Endpoint{"e": {Name: "e", Stmt: []*sysl.Statement{
			{Stmt: &sysl.Statement_Action{Action: &sysl.Action{Action: "x"}}}}}}},
	}}
	var err error
	failed, msg := nd.Recovered(func() { _, err = GenerateSequenceDiagram(mod, "A", startEp) })
	nd.Note(msg)
	switch {
	case startEp == "missing":
		nd.Assert("mermaid-sd:undefined-start-endpoint-is-an-error", !failed && err != nil)
	case tApp == "Nowhere" || tEp == "missing":
		nd.Assert("mermaid-sd:call-to-undefined-target", !failed)
	default:
		nd.Assert("mermaid-sd:tidy-model", !failed && err == nil)
	}
}
