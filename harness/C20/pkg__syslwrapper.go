package syslwrapper

// C20 — export's type resolution on untidy models: references to undefined types,
// self-referential and mutually recursive types.

import (
	"github.com/anz-bank/sysl/pkg/sysl"
	"github.com/anz-bank/sysl/pkg/zzverif/nd"
)

func Harness_C20_ResolveTypesUntidy() {
	ref := func(path ...string) *sysl.Type {
		return &sysl.Type{Type: &sysl.Type_TypeRef{TypeRef: &sysl.ScopedRef{
			Context: &sysl.Scope{Appname: &sysl.AppName{Part: []string{"App"}}}, Ref: &sysl.Scope{Path: path}}}}
	}
	tup := func(attrs map[string]*sysl.Type) *sysl.Type {
		return &sysl.Type{Type: &sysl.Type_Tuple_{Tuple: &sysl.Type_Tuple{AttrDefs: attrs}}}
	}
	shape := nd.IntRange("shape", 0, 3)
	label := ""
	types := map[string]*sysl.Type{}
	switch shape {
	case 0:
		label = "resolve:tidy"
		types["T"] = tup(map[string]*sysl.Type{"u": ref("U")})
		types["U"] = tup(map[string]*sysl.Type{})
	case 1:
		label = "resolve:reference-to-undefined-type"
		types["T"] = tup(map[string]*sysl.Type{"g": ref("Ghost")})
	case 2:
		label = "resolve:self-referential-type"
		types["T"] = tup(map[string]*sysl.Type{"next": ref("T")})
	case 3:
		label = "resolve:mutually-recursive-types"
		types["T"] = tup(map[string]*sysl.Type{"u": ref("U")})
		types["U"] = tup(map[string]*sysl.Type{"t": ref("T")})
	}
	mod := &sysl.Module{Apps: map[string]*sysl.Application{"App": {Name: &sysl.AppName{Part: []string{"App"}}, Types: types}}}
	nd.BudgetDepth(150)
	failed, _ := nd.Recovered(func() {
		am := MakeAppMapper(mod)
		am.IndexTypes()
		am.ResolveTypes()
	})
	nd.Assert(label, !failed)
}

// return payloads as free text: the compiler stores whatever follows "return", so
// "ok<:T" (no blanks), "<: T", "ok <:" and a plain word all occur in compiled models
func Harness_C20_ReturnPayloadText() {
	payload := []string{"ok <: T", "ok<:T", "<: T", "ok <:", "ok <: ", "<:", "ok", "a <: b <: c"}[nd.IntRange("payload", 0, 7)]
	am := &AppMapper{Types: map[string]*sysl.Type{"App.T": {}}}
	stmts := []*sysl.Statement{{Stmt: &sysl.Statement_Ret{Ret: &sysl.Return{Payload: payload}}}}
	failed, msg := nd.Recovered(func() { am.mapResponse(stmts, "App") })
	nd.Note(msg)
	nd.Assert("export:return-payload-of-any-shape", !failed)
}
