//go:build verif

// C20 — "sysl sd" with several start endpoints (-s … -s …) on models whose calls form
// cycles: the diagram ends (every start endpoint is also an "up to" marker for the others,
// and a cycle through start endpoints must still be cut by the in-progress check).
package sequencediagram

import (
	"github.com/anz-bank/sysl/pkg/cmdutils"
	"github.com/anz-bank/sysl/pkg/sysl"
	"github.com/anz-bank/sysl/pkg/zzverif/nd"
)

type c20SeqLabeler struct{}

func (c20SeqLabeler) LabelEndpoint(p *cmdutils.EndpointLabelerParam) string { return p.EndpointName }
func (c20SeqLabeler) LabelApp(appName, controls string, attrs map[string]*sysl.Attribute) string {
	return appName
}

func Harness_C20_SequenceSeveralStarts() {
	call := func(app, ep string) *sysl.Statement {
		return &sysl.Statement{Stmt: &sysl.Statement_Call{Call: &sysl.Call{Target: &sysl.AppName{Part: []string{app}}, Endpoint: ep}}}
	}
	apps := []string{"A", "B", "C"}
	// every application has one endpoint e that calls one other application's e (or its own)
	targets := make([]int, 3)
	mod := &sysl.Module{Apps: map[string]*sysl.Application{}}
	for i, a := range apps {
		targets[i] = nd.IntRange("call-of-"+a, 0, 3) // 3: no call
		var stmts []*sysl.Statement
		if targets[i] < 3 {
			stmts = append(stmts, call(apps[targets[i]], "e"))
		}
		stmts = append(stmts, &sysl.Statement{Stmt: &sysl.Statement_Action{Action: &sysl.Action{Action: "work"}}})
		mod.Apps[a] = &sysl.Application{Name: &sysl.AppName{Part: []string{a}}, Endpoints: map[string]*sysl.Endpoint{"e": {Name: "e", Stmt: stmts}}}
	}
	nstarts := nd.IntRange("start-endpoints", 1, 3)
	var starts []string
	for i := 0; i < nstarts; i++ {
		starts = append(starts, apps[i]+" <- e")
	}
	nd.BudgetDepth(400)
	var err error
	failed, msg := nd.Recovered(func() {
		_, err = GenerateSequenceDiag(mod, &SequenceDiagParam{
			AppLabeler: c20SeqLabeler{}, EndpointLabeler: c20SeqLabeler{}, Endpoints: starts, Title: "t",
		}, nil)
	})
	nd.Note(msg)
	nd.Assert("sd:several-start-endpoints-no-crash", !failed && err == nil)
}
