package integrationdiagram

// C20 — every command ends with output or an error on every valid model (ints).
// Untidy but valid models: calls to applications or endpoints that do not exist.

import (
	"github.com/anz-bank/sysl/pkg/sysl"
	"github.com/anz-bank/sysl/pkg/syslutil"
	"github.com/anz-bank/sysl/pkg/zzverif/nd"
)

func Harness_C20_IntsUntidy() {
	call := func(app, ep string) *sysl.Statement {
		return &sysl.Statement{Stmt: &sysl.Statement_Call{Call: &sysl.Call{Target: &sysl.AppName{Part: []string{app}}, Endpoint: ep}}}
	}
	targets := []string{"B", "Nowhere"}
	eps := []string{"e", "missing"}
	tA := targets[nd.IntRange("A-calls-app", 0, 1)]
	eA := eps[nd.IntRange("A-calls-endpoint", 0, 1)]
	tB := []string{"A", "Nowhere"}[nd.IntRange("B-calls-app", 0, 1)]
	eB := eps[nd.IntRange("B-calls-endpoint", 0, 1)]
	empty := nd.Bool("C-is-empty")
	mod := &sysl.Module{Apps: map[string]*sysl.Application{
		"A": {Name: &sysl.AppName{Part: []string{"A"}}, Endpoints: map[string]*sysl.Endpoint{"e": {Name: "e", Stmt: []*sysl.Statement{call(tA, eA)}}}},
		"B": {Name: &sysl.AppName{Part: []string{"B"}}, Endpoints: map[string]*sysl.Endpoint{"e": {Name: "e", Stmt: []*sysl.Statement{call(tB, eB)}}}},
	}}
	if empty {
		mod.Apps["C"] = &sysl.Application{Name: &sysl.AppName{Part: []string{"C"}}}
	}
	listed := []*sysl.Statement{{Stmt: &sysl.Statement_Action{Action: &sysl.Action{Action: "A"}}}}
	if nd.Bool("list-missing-app") {
		listed = append(listed, &sysl.Statement{Stmt: &sysl.Statement_Action{Action: &sysl.Action{Action: "Ghost"}}})
	}
	if nd.Bool("list-C") {
		listed = append(listed, &sysl.Statement{Stmt: &sysl.Statement_Action{Action: &sysl.Action{Action: "C"}}})
	}
	pass := syslutil.MakeStrSet()
	if nd.Bool("B-passthrough") {
		pass = syslutil.MakeStrSet("B", "Nowhere")
	}
	// the builder, then the view of its result: plain, clustered or endpoint analysis
	view := nd.IntRange("view", 0, 3) // 0: builder only
	proj := &sysl.Application{Name: &sysl.AppName{Part: []string{"Project"}}, Endpoints: map[string]*sysl.Endpoint{"V": {Name: "V", Stmt: listed}}}
	mod.Apps["Project"] = proj
	failed, msg := nd.Recovered(func() {
		b := MakeBuilderfromStmt(mod, listed, syslutil.MakeStrSet("Project"), pass)
		if view > 0 {
			GenerateView(&Args{Title: "t", Project: "Project", Clustered: view == 2, Epa: view == 3},
				&IntsParam{b.FinalApps, b.SeedAppsMap, b.DepsOut, proj, proj.Endpoints["V"]}, mod)
		}
	})
	nd.Note(msg)
	if tA == "Nowhere" || tB == "Nowhere" {
		nd.Assert("ints:call-to-undefined-application", !failed)
	} else {
		nd.Assert("ints:call-to-undefined-endpoint-or-tidy", !failed)
	}
}
