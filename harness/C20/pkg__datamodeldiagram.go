package datamodeldiagram

// C20 — data-model diagrams on untidy models.

import (
	"strings"

	"github.com/anz-bank/sysl/pkg/sysl"
	"github.com/anz-bank/sysl/pkg/zzverif/nd"
)

type c20Labeler struct{}

func (c20Labeler) LabelClass(className string) string { return className }

func Harness_C20_DataModelUntidy() {
	ref := func(path ...string) *sysl.Type {
		return &sysl.Type{Type: &sysl.Type_TypeRef{TypeRef: &sysl.ScopedRef{Ref: &sysl.Scope{Path: path}}}}
	}
	prim := func() *sysl.Type { return &sysl.Type{Type: &sysl.Type_Primitive_{Primitive: sysl.Type_INT}} }
	shape := nd.IntRange("shape", 0, 5)
	types := map[string]*sysl.Type{}
	label := ""
	switch shape {
	case 0:
		label = "datamodel:tuple-field-refers-to-undefined-type"
		types["T"] = &sysl.Type{Type: &sysl.Type_Tuple_{Tuple: &sysl.Type_Tuple{AttrDefs: map[string]*sysl.Type{"f": ref("Ghost")}}}}
	case 1:
		label = "datamodel:table-column-refers-to-undefined-table"
		types["R"] = &sysl.Type{Type: &sysl.Type_Relation_{Relation: &sysl.Type_Relation{AttrDefs: map[string]*sysl.Type{"f": ref("Ghost", "id")}}}}
	case 2:
		label = "datamodel:table-column-reference-path-of-length-one"
		types["R"] = &sysl.Type{Type: &sysl.Type_Relation_{Relation: &sysl.Type_Relation{AttrDefs: map[string]*sysl.Type{"f": ref("Other")}}}}
		types["Other"] = &sysl.Type{Type: &sysl.Type_Relation_{Relation: &sysl.Type_Relation{AttrDefs: map[string]*sysl.Type{"id": prim()}}}}
	case 3:
		label = "datamodel:self-referencing-tuple"
		types["T"] = &sysl.Type{Type: &sysl.Type_Tuple_{Tuple: &sysl.Type_Tuple{AttrDefs: map[string]*sysl.Type{"next": ref("T")}}}}
	case 4:
		label = "datamodel:empty-application"
	case 5:
		label = "datamodel:sequence-of-undefined-type"
		types["T"] = &sysl.Type{Type: &sysl.Type_Tuple_{Tuple: &sysl.Type_Tuple{AttrDefs: map[string]*sysl.Type{
			"xs": {Type: &sysl.Type_Sequence{Sequence: ref("Ghost")}}, "ys": {Type: &sysl.Type_Set{Set: ref("App", "Ghost")}}}}}}
	}
	mod := &sysl.Module{Apps: map[string]*sysl.Application{"App": {Name: &sysl.AppName{Part: []string{"App"}}, Types: types}}}
	failed, _ := nd.Recovered(func() {
		var sb strings.Builder
		v := MakeDataModelView(c20Labeler{}, mod, &sb, "t", "p")
		v.GenerateDataView(&DataModelParam{Mod: mod, App: mod.Apps["App"], Title: "t"})
	})
	nd.Assert(label, !failed)
}
