package parse

// C04 — an application split over imported files whose names are close to each other:
// names that differ only in case, or one a prefix of the other, are different files and
// each contributes its members.

import (
	"context"
	"fmt"
	"strings"

	"github.com/anz-bank/sysl/pkg/zzverif/nd"
	"github.com/anz-bank/sysl/pkg/sysl"
	"github.com/anz-bank/golden-retriever/retriever"
	"github.com/spf13/afero"
)

// c04NameReader looks files up by the name the parser asks for, apart from a leading
// "./" or "/" (it does not share the parser's own index function).
type c04NameReader struct {
	afero.Fs
	files map[string]string
}

func (r *c04NameReader) Read(ctx context.Context, p string) ([]byte, error) {
	b, _, _, err := r.ReadHashBranch(ctx, p)
	return b, err
}
func (r *c04NameReader) ReadHash(ctx context.Context, p string) ([]byte, retriever.Hash, error) {
	b, h, _, err := r.ReadHashBranch(ctx, p)
	return b, h, err
}
func (r *c04NameReader) ReadHashBranch(ctx context.Context, p string) ([]byte, retriever.Hash, string, error) {
	key := strings.TrimPrefix(strings.TrimPrefix(p, "./"), "/")
	c, ok := r.files[key]
	if !ok {
		return nil, retriever.ZeroHash, "", fmt.Errorf("no such file %s", p)
	}
	return []byte(c), retriever.ZeroHash, "", nil
}

func Harness_C04_NeighbouringFileNames() {
	pair := [][2]string{{"Part", "part"}, {"part", "Part"}, {"part", "part2"}, {"lib/Part", "lib/part"}}[nd.IntRange("imported-file-names", 0, 3)]
	ownBlock := nd.Bool("root-has-a-block-of-its-own")
	b1 := "App:\n    !type A:\n        a <: int\n"
	b2 := "App:\n    !type B:\n        b <: string\n    Ep:\n        ...\n"
	b0 := "App:\n    !type C:\n        c <: int\n"
	joined := "App:\n    !type A:\n        a <: int\n    !type B:\n        b <: string\n    Ep:\n        ...\n"
	root := "import " + pair[0] + "\nimport " + pair[1] + "\n\n"
	if ownBlock {
		joined += "    !type C:\n        c <: int\n"
		root += b0
	} else {
		root += "Other:\n    Ep:\n        ...\n"
		joined += "Other:\n    Ep:\n        ...\n"
	}
	jmod, jerr, jcrash, _ := feCompileText(joined)
	feSetup()
	var smod *sysl.Module
	var serr error
	scrash, _ := nd.Recovered(func() {
		smod, serr = NewParser().Parse("a.sysl", &c04NameReader{files: map[string]string{
			"a.sysl": root, pair[0] + ".sysl": b1, pair[1] + ".sysl": b2}})
	})
	nd.Assert("files:both-compile", !jcrash && !scrash && jerr == nil && serr == nil && jmod != nil && smod != nil)
	if jcrash || scrash || jerr != nil || serr != nil || jmod == nil || smod == nil {
		return
	}
	ja, sa := jmod.Apps["App"], smod.Apps["App"]
	nd.Assert("files:application-present", ja != nil && sa != nil)
	if ja == nil || sa == nil {
		return
	}
	nd.Assert("files:every-file-contributes-its-types", len(sa.Types) == len(ja.Types) && sa.Types["A"] != nil && sa.Types["B"] != nil)
	nd.Assert("files:every-file-contributes-its-endpoints", len(sa.Endpoints) == len(ja.Endpoints) && sa.Endpoints["Ep"] != nil)
	nd.Assert("files:same-model-apart-from-locations-and-imports", nd.ProtoEqualNoCtx(c04Strip(jmod), c04Strip(smod)))
}
