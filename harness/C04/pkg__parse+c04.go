package parse

// C04 — splitting declarations across blocks or imported files merges losslessly.
// The members of an application (fields of a re-opened table with key flags, a type,
// an endpoint, a REST tree) are distributed over up to three declaration blocks by
// solver-visible selectors, the re-opening blocks in either order and optionally in an
// imported file; the real pipeline compiles the split and the joined text and the models
// must be equal apart from source locations and the import list.

import (
	"github.com/anz-bank/sysl/pkg/sysl"
	"github.com/anz-bank/sysl/pkg/zzverif/nd"
)

type c04Member struct {
	container string // "" for a member of the application itself, else the table/type header
	lines     []string
}

func c04Members() []c04Member {
	// key field names: one a substring of the other (quick), plus unrelated names and the
	// reverse order (thorough)
	k1, k2 := "order_id", "id"
	if nd.Thorough() {
		switch nd.IntRange("key-field-names", 0, 2) {
		case 1:
			k1, k2 = "a", "b"
		case 2:
			k1, k2 = "id", "order_id"
		}
	}
	// the table's name as written: plain, or with a %-escaped character (stored under the
	// decoded name) — thorough only; quick covers the escaped spelling in EncodedNames
	tbl := "!table R"
	if nd.Thorough() && nd.Bool("table-name-escaped") {
		tbl = "!table R%3AX"
	}
	ms := []c04Member{
		{tbl, []string{k1 + " <: int [~pk]"}},
		{tbl, []string{k2 + " <: int [~pk]"}},
		{"", []string{"e:", "    do something"}},
	}
	if nd.Thorough() {
		ms = append(ms,
			c04Member{"!type T", []string{"c <: string"}},
			c04Member{"!type T", []string{"d <: R." + k1 + "?"}},
			c04Member{"", []string{"/r:", "    GET:", "        return ok"}},
		)
	}
	return ms
}

// c04Block renders one application block holding the given members (in order);
// members of the same container that follow each other share one header.
func c04Block(ms []c04Member) string {
	out := "App:\n"
	if len(ms) == 0 {
		return out + "    ...\n"
	}
	last := "-"
	for _, m := range ms {
		if m.container == "" {
			for _, l := range m.lines {
				out += "    " + l + "\n"
			}
			last = "-"
			continue
		}
		if m.container != last {
			out += "    " + m.container + ":\n"
			last = m.container
		}
		for _, l := range m.lines {
			out += "        " + l + "\n"
		}
	}
	return out
}

func c04Strip(m *sysl.Module) *sysl.Module {
	if m != nil {
		m.Imports = nil
	}
	return m
}

//verif:shard-quick 16 4
//verif:shard-thorough 16 5
func Harness_C04_SplitBlocks() {
	ms := c04Members()
	assign := make([]int, len(ms))
	for i := range ms {
		assign[i] = nd.IntRange("block-of-member"+string(rune('0'+i)), 0, 2)
	}
	swap := nd.Bool("re-opening-blocks-swapped")
	inFile := nd.Bool("last-block-in-imported-file")
	order := []int{0, 1, 2}
	if swap {
		order = []int{0, 2, 1}
	}
	blocks := make([][]c04Member, 3)
	// the header block always declares something of its own
	blocks[0] = append(blocks[0], c04Member{"!type H", []string{"h <: int"}})
	for i, m := range ms {
		blocks[assign[i]] = append(blocks[assign[i]], m)
	}
	var joined []c04Member
	var texts []string
	for _, k := range order {
		joined = append(joined, blocks[k]...)
		if k == 0 || len(blocks[k]) > 0 {
			texts = append(texts, c04Block(blocks[k]))
		}
	}
	// joined: one declaration with the members in the order the blocks list them; members of
	// one container that are not adjacent stay separate re-openings inside the one block
	jmod, jerr, jcrash, _ := feCompileText(c04Block(joined))
	files := map[string]string{}
	if inFile && len(texts) > 1 {
		// the last block lives in b.sysl, imported by a.sysl: imported files are merged first
		files["b.sysl"] = texts[len(texts)-1]
		main := "import b\n\n"
		for _, t := range texts[:len(texts)-1] {
			main += t
		}
		files["a.sysl"] = main
	} else {
		all := ""
		for _, t := range texts {
			all += t
		}
		files["a.sysl"] = all
	}
	smod, serr, scrash, _ := feCompile(files, "a.sysl")
	nd.Assert("split:both-compile", !jcrash && !scrash && jerr == nil && serr == nil && jmod != nil && smod != nil)
	if jcrash || scrash || jerr != nil || serr != nil || jmod == nil || smod == nil {
		return
	}
	japp, sapp := jmod.Apps["App"], smod.Apps["App"]
	nd.Assert("split:same-type-names", len(japp.Types) == len(sapp.Types))
	nd.Assert("split:same-endpoint-names", len(japp.Endpoints) == len(sapp.Endpoints))
	rname := "R"
	if japp.Types["R"] == nil {
		rname = "R:X"
	}
	jr, sr := japp.Types[rname].GetRelation(), sapp.Types[rname].GetRelation()
	nd.Assert("split:same-fields-of-a-re-opened-table", len(jr.GetAttrDefs()) == len(sr.GetAttrDefs()))
	jk, sk := jr.GetPrimaryKey().GetAttrName(), sr.GetPrimaryKey().GetAttrName()
	sameKeySet := len(jk) == len(sk)
	for _, a := range jk {
		found := false
		for _, b := range sk {
			if a == b {
				found = true
			}
		}
		if !found {
			sameKeySet = false
		}
	}
	nd.Assert("split:composite-key-keeps-every-key-field", sameKeySet)
	if !inFile || len(texts) <= 1 {
		// one file: declaration order is the same in both texts, everything must be equal
		nd.Assert("split:same-model-apart-from-locations", nd.ProtoEqualNoCtx(c04Strip(jmod), c04Strip(smod)))
	} else {
		// the imported block is merged before the importing file: ordered parts (the key list)
		// may legitimately follow that order; compare the key as a set (above) and the rest exactly
		jr.PrimaryKey, sr.PrimaryKey = nil, nil
		nd.Assert("split:same-model-apart-from-locations-and-imports", nd.ProtoEqualNoCtx(c04Strip(jmod), c04Strip(smod)))
	}
}


// a type and a table whose names are written with a %-escape (stored under the decoded
// name), re-opened in the same file or in an imported file: the blocks merge as for plain names
func Harness_C04_EncodedNames() {
	kind := []string{"!type", "!table"}[nd.IntRange("declared-as", 0, 1)]
	name := []string{"Order%3AItem", "Stock%2ELevel", "Plain"}[nd.IntRange("name", 0, 2)]
	inFile := nd.Bool("second-block-in-imported-file")
	// the application's own name may carry an escape too (stored decoded: "Shop :: Orders.v2")
	appText, appKey := "App", "App"
	if nd.Bool("application-name-escaped") {
		appText, appKey = "Shop :: Orders%2Ev2", "Shop :: Orders.v2"
	}
	b1 := appText + ":\n    " + kind + " " + name + ":\n        a <: int\n"
	b2 := appText + ":\n    " + kind + " " + name + ":\n        b <: string\n"
	joined := appText + ":\n    " + kind + " " + name + ":\n        a <: int\n        b <: string\n"
	jmod, jerr, jcrash, _ := feCompileText(joined)
	files := map[string]string{"a.sysl": b1 + b2}
	if inFile {
		files = map[string]string{"a.sysl": "import b\n\n" + b1, "b.sysl": b2}
	}
	smod, serr, scrash, _ := feCompile(files, "a.sysl")
	nd.Assert("encoded:both-compile", !jcrash && !scrash && jerr == nil && serr == nil && jmod != nil && smod != nil)
	if jcrash || scrash || jerr != nil || serr != nil || jmod == nil || smod == nil {
		return
	}
	nd.Assert("encoded:one-application-under-the-decoded-name", len(jmod.Apps) == 1 && len(smod.Apps) == 1 && jmod.Apps[appKey] != nil && smod.Apps[appKey] != nil)
	if jmod.Apps[appKey] == nil || smod.Apps[appKey] == nil {
		return
	}
	jt, st := jmod.Apps[appKey].Types, smod.Apps[appKey].Types
	nd.Assert("encoded:one-type-under-the-decoded-name", len(jt) == 1 && len(st) == 1)
	for k, t := range jt {
		fields := func(t *sysl.Type) map[string]*sysl.Type {
			if t.GetRelation() != nil {
				return t.GetRelation().GetAttrDefs()
			}
			return t.GetTuple().GetAttrDefs()
		}
		s2 := st[k]
		nd.Assert("encoded:same-type-name", s2 != nil)
		if s2 != nil {
			nd.Assert("encoded:split-keeps-every-field", len(fields(t)) == 2 && len(fields(s2)) == 2 && fields(s2)["a"] != nil && fields(s2)["b"] != nil)
		}
	}
	nd.Assert("encoded:same-model-apart-from-locations-and-imports", nd.ProtoEqualNoCtx(c04Strip(jmod), c04Strip(smod)))
}
