#!/bin/sh
# Builds the gosym engine from /verif/engine (offline).
set -e
cd "$(dirname "$0")"
export GOFLAGS=-mod=mod GOPROXY=off GOSUMDB=off GOTOOLCHAIN=local CGO_ENABLED=0
mkdir -p bin evidence replays
(cd engine && go build -o ../bin/gosym .)
(cd engine && go test -count=1 ./... 2>&1 | tail -3)
echo "gosym built"
