// Package nd is the "nondet" API used by verification harnesses.
//
// Under the symbolic executor (gosym) calls to these functions are
// intercepted: values become SMT variables, Assume/Assert become solver
// queries.  Compiled natively (this file), the functions replay a recorded
// counterexample from the JSON file named by $VERIF_REPLAY.
package nd

import (
	"encoding/json"
	"fmt"
	"os"
	"runtime"
	"time"

	"google.golang.org/protobuf/proto"
	"google.golang.org/protobuf/reflect/protoreflect"
)

type replay struct {
	Property string            `json:"property"`
	Harness  string            `json:"harness"`
	Label    string            `json:"label"`
	Values   map[string]uint64 `json:"values"`
	Tier     string            `json:"tier"`
}

var (
	rp     replay
	loaded bool
	seen   = map[string]int{}
)

func load() {
	if loaded {
		return
	}
	loaded = true
	rp.Values = map[string]uint64{}
	p := os.Getenv("VERIF_REPLAY")
	if p == "" {
		return
	}
	b, err := os.ReadFile(p)
	if err != nil {
		fmt.Println("VERIF-REPLAY-ERROR", err)
		os.Exit(4)
	}
	if err := json.Unmarshal(b, &rp); err != nil {
		fmt.Println("VERIF-REPLAY-ERROR", err)
		os.Exit(4)
	}
}

// Load (re)loads the replay file at path; used when several harnesses are replayed in one process.
func Load(path string) {
	loaded = true
	seen = map[string]int{}
	rp = replay{Values: map[string]uint64{}}
	b, err := os.ReadFile(path)
	if err != nil {
		fmt.Println("VERIF-REPLAY-ERROR", err)
		os.Exit(4)
	}
	if err := json.Unmarshal(b, &rp); err != nil {
		fmt.Println("VERIF-REPLAY-ERROR", err)
		os.Exit(4)
	}
}

func val(name string) uint64 {
	load()
	n := seen[name]
	seen[name] = n + 1
	if n > 0 {
		name = fmt.Sprintf("%s#%d", name, n)
	}
	return rp.Values[name]
}

// Thorough reports whether the thorough tier is running.
func Thorough() bool { load(); return rp.Tier == "thorough" || os.Getenv("VERIF_TIER") == "thorough" }

func Bool(name string) bool { return val(name) != 0 }

func Int(name string, bits int) int64 {
	v := val(name)
	if bits < 64 {
		sh := uint(64 - bits)
		return int64(v<<sh) >> sh
	}
	return int64(v)
}

func Uint(name string, bits int) uint64 {
	v := val(name)
	if bits < 64 {
		v &= (1 << uint(bits)) - 1
	}
	return v
}

// IntRange returns an arbitrary integer in [lo,hi]; the executor case-splits it to a concrete value.
func IntRange(name string, lo, hi int) int { return int(int64(val(name))) }

// SymRange returns an arbitrary integer in [lo,hi] that stays symbolic.
func SymRange(name string, lo, hi int) int { return int(int64(val(name))) }

func Choice(name string, n int) int { return int(int64(val(name))) }

func Byte(name string) byte { return byte(val(name)) }

func Bytes(name string, n int) []byte {
	b := make([]byte, n)
	for i := range b {
		b[i] = byte(val(fmt.Sprintf("%s[%d]", name, i)))
	}
	return b
}

// StringN returns an arbitrary string of exactly n bytes.
func StringN(name string, n int) string { return string(Bytes(name, n)) }

// String returns an arbitrary string of at most maxLen bytes.
func String(name string, maxLen int) string {
	n := int(val(name + ".len"))
	if n > maxLen {
		n = maxLen
	}
	return string(Bytes(name, n))
}

func Assume(c bool) {
	if !c {
		fmt.Println("VERIF-ASSUME-FALSE (replay diverged)")
		os.Exit(0)
	}
}

func Assert(label string, c bool) {
	if !c {
		fmt.Println("VERIF-ASSERT-FAILED", label)
		os.Exit(3)
	}
}

// Concrete forces a symbolic integer to a concrete value (case split).
func Concrete(x int) int { return x }

// ConcreteString forces every byte of s to a concrete value.
func ConcreteString(s string) string { return s }

// Recovered runs f and reports whether a panic (or, under the executor, a
// process exit or an exceeded unwinding bound) escaped from it.
func Recovered(f func()) (panicked bool, msg string) {
	type result struct {
		panicked bool
		msg      string
	}
	done := make(chan result, 1)
	go func() {
		defer func() {
			if r := recover(); r != nil {
				done <- result{true, "PANIC: " + fmt.Sprint(r)}
			}
		}()
		f()
		done <- result{false, ""}
	}()
	// a call that never returns (a leaked lock, goroutines waiting for each other) counts
	// like a crash; the executor reports the same situation as DEADLOCK
	select {
	case r := <-done:
		return r.panicked, r.msg
	case <-time.After(recoveredDeadline):
		return true, "DEADLOCK: did not return within " + recoveredDeadline.String()
	}
}

const recoveredDeadline = 40 * time.Second

// AnyMapOrder runs f with every map range inside it iterating in an arbitrary order.
// Natively Go's own randomisation applies.
func AnyMapOrder(f func()) { f() }

// Stub replaces the function named target (as printed by ssa.Function.String)
// by replacement while the harness runs. Natively it has no effect, so
// harnesses using it are replayed through their public-API renderers.
func Stub(target string, replacement interface{}) {}
func Unstub(target string)                        {}

// TaskModel makes the executor schedule goroutines as tasks whose interleaving (at Lock, Unlock,
// Wait, Yield, spawn and task end) is chosen by the solver. Natively goroutines just run.
func TaskModel() {}

// PreemptionBound limits how often the executor switches away from a task that could continue.
func PreemptionBound(n int) {}

func Yield(point string)  { runtime.Gosched() }
func Note(s string)       {}
func Setenv(k, v string)  { os.Setenv(k, v) }
func Replaying() bool     { return true }
func BudgetSteps(n int64) {}
func BudgetDepth(n int)   {}

// ProtoEqualNoCtx reports whether two protobuf messages are equal once every
// source_context / source_contexts field (recorded source locations) is dropped.
// Under the executor this is a structural comparison of the generated structs.
func ProtoEqualNoCtx(a, b proto.Message) bool {
	if a == nil || b == nil {
		return a == nil && b == nil
	}
	ca, cb := proto.Clone(a), proto.Clone(b)
	stripCtx(ca.ProtoReflect())
	stripCtx(cb.ProtoReflect())
	return proto.Equal(ca, cb)
}

func stripCtx(m protoreflect.Message) {
	m.Range(func(fd protoreflect.FieldDescriptor, v protoreflect.Value) bool {
		name := string(fd.Name())
		if name == "source_context" || name == "source_contexts" {
			m.Clear(fd)
			return true
		}
		switch {
		case fd.IsMap():
			if fd.MapValue().Message() != nil {
				v.Map().Range(func(_ protoreflect.MapKey, mv protoreflect.Value) bool {
					stripCtx(mv.Message())
					return true
				})
			}
		case fd.IsList():
			if fd.Message() != nil {
				l := v.List()
				for i := 0; i < l.Len(); i++ {
					stripCtx(l.Get(i).Message())
				}
			}
		case fd.Message() != nil:
			stripCtx(v.Message())
		}
		return true
	})
}
