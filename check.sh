#!/bin/sh
# usage: check.sh <property> quick|thorough
cd "$(dirname "$0")"
export GOFLAGS=-mod=mod GOPROXY=off GOSUMDB=off GOTOOLCHAIN=local CGO_ENABLED=0
export VERIF_ROOT="$(pwd)"
if [ ! -x bin/gosym ] || [ -n "$(find engine -newer bin/gosym -name '*.go' 2>/dev/null | head -1)" ]; then
  (cd engine && go build -o ../bin/gosym .) || exit 2
fi
exec ./bin/gosym run -repo "${VERIF_REPO:-/repo}" -prop "$1" -tier "${2:-quick}"
