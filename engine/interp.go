// Copyright 2013 The Go Authors. All rights reserved.
// Use of this source code is governed by a BSD-style
// license that can be found in the LICENSE file.
//
// Derived from golang.org/x/tools/go/ssa/interp (v0.29.0): a path-wise
// symbolic executor for Go SSA.

package main

import (
	"fmt"
	"go/token"
	"go/types"
	"os"
	"runtime"
	"slices"
	"strings"

	"golang.org/x/tools/go/ssa"
)

type continuation int

const (
	kNext continuation = iota
	kReturn
	kJump
)

type interpreter struct {
	prog               *ssa.Program
	globals            map[*ssa.Global]*value
	initState          map[*ssa.Package]int // 0 not started, 1 running, 2 done
	initNotes          []string
	runtimeErrorString types.Type
	rtypePtr           types.Type // *reflect.rtype
	stubs              map[string]*ssa.Function
	trace              bool
	repoPrefix         string
	mapOrderAny        int // >0 while inside nd.AnyMapOrder
	mapOrderEpoch      int
	poisoned           map[*ssa.Global]string
}

type deferred struct {
	fn    value
	args  []value
	instr *ssa.Defer
	tail  *deferred
}

type frame struct {
	i                *interpreter
	caller           *frame
	fn               *ssa.Function
	block, prevBlock *ssa.BasicBlock
	env              []value // dynamic values of SSA variables, indexed by fnInfo.idx
	idx              map[ssa.Value]int32
	locals           []value
	defers           *deferred
	result           value
	panicking        bool
	panic            interface{}
	phitemps         []value // temporaries for parallel phi assignment
	pos              token.Pos
	curPos           token.Pos // position of the instruction being executed
}

var runtimeErrorSites = map[string]int{}

var lastPanic struct {
	payload interface{}
	where   string
}

type poison struct{ why string }

func (fr *frame) get(key ssa.Value) value {
	switch key := key.(type) {
	case nil:
		return nil
	case *ssa.Function, *ssa.Builtin:
		return key
	case *ssa.Const:
		return constValue(key)
	case *ssa.Global:
		return fr.i.globalAddr(key)
	}
	if k, ok := fr.idx[key]; ok {
		r := fr.env[k]
		if p, ok := r.(poison); ok {
			panic(pathEnd{peUnsupported, "use of value from failed initialiser: " + p.why})
		}
		return r
	}
	panic(fmt.Sprintf("get: no value for %T: %v", key, key.Name()))
}

// globalAddr returns the address of g, running its package's initialiser on first use.
func (i *interpreter) globalAddr(g *ssa.Global) *value {
	pkg := g.Pkg
	if pkg != nil && i.initState[pkg] == 0 {
		i.initPackage(pkg)
	}
	if r, ok := i.globals[g]; ok {
		return r
	}
	cell := zero(mustDeref(g.Type()))
	i.globals[g] = &cell
	return &cell
}

// skipInit lists packages whose initialisers are not executed (their globals keep zero values).
var skipInit = map[string]bool{
	"runtime": true, "os": true, "syscall": true, "internal/poll": true, "time": true,
	"internal/godebug": true, "internal/cpu": true, "reflect": true, "internal/abi": true,
	"testing": true, "net": true, "crypto/rand": true, "internal/syscall/unix": true,
	"google.golang.org/protobuf/reflect/protoregistry": true,
	"google.golang.org/protobuf/internal/impl":         true,
	"google.golang.org/protobuf/internal/filedesc":     true,
	"github.com/sirupsen/logrus":                       true,
	"internal/bytealg":                                 true,
	"sync":                                             true,
	"sync/atomic":                                      true,
}

func (i *interpreter) initPackage(pkg *ssa.Package) {
	i.initState[pkg] = 1
	defer func() { i.initState[pkg] = 2 }()
	// allocate globals
	for _, m := range pkg.Members {
		if g, ok := m.(*ssa.Global); ok {
			if _, ok := i.globals[g]; !ok {
				cell := zero(mustDeref(g.Type()))
				i.globals[g] = &cell
			}
		}
	}
	path := pkg.Pkg.Path()
	if skipInit[path] {
		i.initNotes = append(i.initNotes, "init skipped: "+path)
		return
	}
	initFn := pkg.Func("init")
	if initFn != nil && initFn.Blocks == nil {
		ensureBuilt(initFn)
	}
	if initFn == nil || initFn.Blocks == nil {
		return
	}
	// Mark the guard so the synthesized init does not return early... it is
	// the initialiser itself that sets it; we just execute the body best-effort.
	savedSteps, savedDepth := int64(0), 0
	if ex != nil {
		savedSteps, savedDepth = ex.steps, ex.depth
		ex.steps = -50_000_000 // generous budget for initialisers
	}
	i.runInit(pkg, initFn)
	if ex != nil {
		ex.steps, ex.depth = savedSteps, savedDepth
	}
}

// runInit executes a package initialiser best-effort: calls that the engine
// cannot model are skipped and their results poisoned.
func (i *interpreter) runInit(pkg *ssa.Package, fn *ssa.Function) {
	fr := &frame{i: i, fn: fn}
	info := infoOf(fn)
	fr.idx = info.idx
	fr.env = make([]value, info.n)
	fr.block = fn.Blocks[0]
	fr.locals = make([]value, len(fn.Locals))
	for k, l := range fn.Locals {
		fr.locals[k] = zero(mustDeref(l.Type()))
		fr.set(l, &fr.locals[k])
	}
	for fr.block != nil {
		nonPhis := executePhis(fr)
		var cont continuation
		for _, instr := range nonPhis {
			cont = i.initInstr(pkg, fr, instr)
			if cont != kNext {
				break
			}
		}
		if cont == kReturn {
			return
		}
	}
}

func (i *interpreter) initInstr(pkg *ssa.Package, fr *frame, instr ssa.Instruction) (cont continuation) {
	// Skip calls to other packages' initialisers: they run lazily.
	if c, ok := instr.(*ssa.Call); ok {
		if callee := c.Call.StaticCallee(); callee != nil && callee.Name() == "init" && callee.Pkg != nil && callee.Pkg != pkg && callee.Synthetic != "" {
			return kNext
		}
	}
	defer func() {
		if r := recover(); r != nil {
			why := describePanic(r)
			i.initNotes = append(i.initNotes, fmt.Sprintf("init %s: skipped %s: %s", pkg.Pkg.Path(), shortInstr(instr), why))
			if v, ok := instr.(ssa.Value); ok {
				fr.set(v, poison{why: pkg.Pkg.Path() + ": " + why})
			}
			if st, ok := instr.(*ssa.Store); ok {
				if g, ok := st.Addr.(*ssa.Global); ok {
					i.poisoned[g] = why
				}
			}
			cont = kNext
			if _, ok := instr.(*ssa.If); ok {
				// cannot evaluate a branch in an initialiser: give up on this package
				i.initNotes = append(i.initNotes, "init "+pkg.Pkg.Path()+": abandoned at branch")
				cont = kReturn
			}
		}
	}()
	// poisoned operands: propagate without executing
	return visitInstr(fr, instr)
}

func shortInstr(instr ssa.Instruction) string {
	s := instr.String()
	if len(s) > 80 {
		s = s[:80] + "…"
	}
	return s
}

func describePanic(r interface{}) string {
	switch p := r.(type) {
	case pathEnd:
		return peNames[p.kind] + ": " + p.msg
	case targetPanic:
		return "target panic: " + toString(p.v)
	case error:
		return "error: " + p.Error()
	case string:
		return p
	}
	return fmt.Sprint(r)
}

// runDefer runs a deferred call d.
// It always returns normally, but may set or clear fr.panic.
func (fr *frame) runDefer(d *deferred) {
	var ok bool
	defer func() {
		if !ok {
			r := recover()
			if isEnginePanic(r) {
				panic(r)
			}
			// Deferred call created a new state of panic.
			fr.panicking = true
			fr.panic = r
		}
	}()
	call(fr.i, fr, d.instr.Pos(), d.fn, d.args)
	ok = true
}

// isEnginePanic reports whether a host panic must propagate to the top
// without being observable by the target program.
func isEnginePanic(r interface{}) bool {
	switch r.(type) {
	case pathEnd, exitPanic, taskKilled, deadlockPanic:
		return true
	case *runtime.TypeAssertionError:
		return true
	}
	return false
}

// runDefers executes fr's deferred function calls in LIFO order.
func (fr *frame) runDefers() {
	for d := fr.defers; d != nil; d = d.tail {
		fr.runDefer(d)
	}
	fr.defers = nil
	if fr.panicking {
		panic(fr.panic) // new panic, or still panicking
	}
}

// lookupMethod returns the method set for type typ.
func lookupMethod(i *interpreter, typ types.Type, meth *types.Func) *ssa.Function {
	k := methKey{typ, meth}
	if f, ok := methCache[k]; ok {
		return f
	}
	f := i.prog.LookupMethod(typ, meth.Pkg(), meth.Name())
	methCache[k] = f
	return f
}

// visitInstr interprets a single ssa.Instruction within the activation
// record frame.  It returns a continuation value indicating where to
// read the next instruction from.
func visitInstr(fr *frame, instr ssa.Instruction) continuation {
	switch instr := instr.(type) {
	case *ssa.DebugRef:
		// no-op

	case *ssa.UnOp:
		fr.set(instr, unop(instr, fr.get(instr.X)))

	case *ssa.BinOp:
		fr.set(instr, binop(instr.Op, instr.X.Type(), fr.get(instr.X), fr.get(instr.Y)))

	case *ssa.Call:
		fn, args := prepareCall(fr, &instr.Call)
		fr.pos = instr.Pos()
		fr.set(instr, call(fr.i, fr, instr.Pos(), fn, args))

	case *ssa.ChangeInterface:
		fr.set(instr, fr.get(instr.X))

	case *ssa.ChangeType:
		fr.set(instr, fr.get(instr.X)) // (cannot fail)

	case *ssa.Convert:
		fr.set(instr, conv(instr.Type(), instr.X.Type(), fr.get(instr.X)))

	case *ssa.MultiConvert:
		fr.set(instr, conv(instr.Type(), instr.X.Type(), fr.get(instr.X)))

	case *ssa.SliceToArrayPointer:
		fr.set(instr, sliceToArrayPointer(instr.Type(), instr.X.Type(), fr.get(instr.X)))

	case *ssa.MakeInterface:
		fr.set(instr, iface{t: instr.X.Type(), v: fr.get(instr.X)})

	case *ssa.Extract:
		fr.set(instr, fr.get(instr.Tuple).(tuple)[instr.Index])

	case *ssa.Slice:
		fr.set(instr, slice(fr.get(instr.X), fr.get(instr.Low), fr.get(instr.High), fr.get(instr.Max)))

	case *ssa.Return:
		switch len(instr.Results) {
		case 0:
		case 1:
			fr.result = fr.get(instr.Results[0])
		default:
			var res []value
			for _, r := range instr.Results {
				res = append(res, fr.get(r))
			}
			fr.result = tuple(res)
		}
		fr.block = nil
		return kReturn

	case *ssa.RunDefers:
		fr.runDefers()

	case *ssa.Panic:
		panic(targetPanic{fr.get(instr.X)})

	case *ssa.Send:
		chanSend(fr.get(instr.Chan), fr.get(instr.X))

	case *ssa.Store:
		addr := fr.get(instr.Addr).(*value)
		if addr == nil {
			panic(goRuntimeError("runtime error: invalid memory address or nil pointer dereference"))
		}
		store(mustDeref(instr.Addr.Type()), addr, fr.get(instr.Val))

	case *ssa.If:
		succ := 1
		if cbool(fr.get(instr.Cond)) {
			succ = 0
		}
		fr.prevBlock, fr.block = fr.block, fr.block.Succs[succ]
		return kJump

	case *ssa.Jump:
		fr.prevBlock, fr.block = fr.block, fr.block.Succs[0]
		return kJump

	case *ssa.Defer:
		fn, args := prepareCall(fr, &instr.Call)
		defers := &fr.defers
		if into := fr.get(instr.DeferStack); into != nil {
			defers = into.(**deferred)
		}
		*defers = &deferred{
			fn:    fn,
			args:  args,
			instr: instr,
			tail:  *defers,
		}

	case *ssa.Go:
		fn, args := prepareCall(fr, &instr.Call)
		spawn(fr, instr, fn, args)

	case *ssa.MakeChan:
		fr.set(instr, make(chan value, asInt64(fr.get(instr.Size))))

	case *ssa.Alloc:
		var addr *value
		if instr.Heap {
			// new
			addr = new(value)
			fr.set(instr, addr)
		} else {
			// local
			addr = fr.env[fr.idx[instr]].(*value)
		}
		*addr = zero(mustDeref(instr.Type()))

	case *ssa.MakeSlice:
		n := asInt64(fr.get(instr.Cap))
		l := asInt64(fr.get(instr.Len))
		if l < 0 || n < l || n > 1<<24 {
			panic(goRuntimeError("runtime error: makeslice: len out of range"))
		}
		slice := make([]value, n)
		tElt := instr.Type().Underlying().(*types.Slice).Elem()
		for i := range slice {
			slice[i] = zero(tElt)
		}
		fr.set(instr, slice[:l])

	case *ssa.MakeMap:
		fr.set(instr, makeMap(instr.Type().Underlying().(*types.Map).Key(), 0))

	case *ssa.Range:
		fr.set(instr, rangeIter(fr.get(instr.X), instr.X.Type()))

	case *ssa.Next:
		fr.set(instr, fr.get(instr.Iter).(iter).next())

	case *ssa.FieldAddr:
		p := fr.get(instr.X).(*value)
		if p == nil {
			panic(goRuntimeError("runtime error: invalid memory address or nil pointer dereference"))
		}
		fr.set(instr, &(*p).(structure)[instr.Field])

	case *ssa.Field:
		fr.set(instr, copyVal(fr.get(instr.X).(structure)[instr.Field]))

	case *ssa.IndexAddr:
		x := fr.get(instr.X)
		idx := fr.get(instr.Index)
		switch x := x.(type) {
		case []value:
			if si, ok := idx.(sym); ok && symSelectable(instr, x) {
				fr.set(instr, symElemPtr{x, si})
				break
			}
			fr.set(instr, &x[checkIndex(idx, len(x), "slice")])
		case *value: // *array
			if x == nil {
				panic(goRuntimeError("runtime error: invalid memory address or nil pointer dereference"))
			}
			a := (*x).(array)
			if si, ok := idx.(sym); ok && symSelectable(instr, a) {
				fr.set(instr, symElemPtr{a, si})
				break
			}
			fr.set(instr, &a[checkIndex(idx, len(a), "array")])
		default:
			panic(fmt.Sprintf("unexpected x type in IndexAddr: %T", x))
		}

	case *ssa.Index:
		x := fr.get(instr.X)
		idx := fr.get(instr.Index)

		switch x := x.(type) {
		case array:
			fr.set(instr, copyVal(x[checkIndex(idx, len(x), "array")]))
		case string:
			if si, ok := idx.(sym); ok && len(x) > 0 && len(x) <= 256 {
				fr.set(instr, selectByte(x, si))
				break
			}
			fr.set(instr, x[checkIndex(idx, len(x), "string")])
		case sstr:
			fr.set(instr, x.b[checkIndex(idx, len(x.b), "string")])
		default:
			panic(fmt.Sprintf("unexpected x type in Index: %T", x))
		}

	case *ssa.Lookup:
		fr.set(instr, lookup(instr, fr.get(instr.X), fr.get(instr.Index)))

	case *ssa.MapUpdate:
		m := fr.get(instr.Map)
		key := fr.get(instr.Key)
		v := fr.get(instr.Value)
		switch m := m.(type) {
		case *omap:
			m.insert(key, copyVal(v))
		default:
			panic(fmt.Sprintf("illegal map type: %T", m))
		}

	case *ssa.TypeAssert:
		fr.set(instr, typeAssert(fr.i, instr, fr.get(instr.X).(iface)))

	case *ssa.MakeClosure:
		var bindings []value
		for _, binding := range instr.Bindings {
			bindings = append(bindings, fr.get(binding))
		}
		fr.set(instr, &closure{instr.Fn.(*ssa.Function), bindings})

	case *ssa.Phi:
		panic("unreachable: phis are processed at block entry")

	case *ssa.Select:
		fr.set(instr, doSelect(fr, instr))

	default:
		panic(fmt.Sprintf("unexpected instruction: %T", instr))
	}

	return kNext
}

// prepareCall determines the function value and argument values for a
// function call in a Call, Go or Defer instruction, performing
// interface method lookup if needed.
func prepareCall(fr *frame, call *ssa.CallCommon) (fn value, args []value) {
	v := fr.get(call.Value)
	if call.Method == nil {
		// Function call.
		fn = v
	} else {
		// Interface method invocation.
		recv := v.(iface)
		if recv.t == nil {
			panic(goRuntimeError("runtime error: invalid memory address or nil pointer dereference (method " + call.Method.Name() + " invoked on nil interface)"))
		}
		if rt, ok := recv.v.(rtype); ok {
			fn = &rtypeMethod{name: call.Method.Name(), rt: rt}
		} else if f := lookupMethod(fr.i, recv.t, call.Method); f == nil {
			// Unreachable in well-typed programs.
			panic(fmt.Sprintf("method set for dynamic type %v does not contain %s", recv.t, call.Method))
		} else {
			fn = f
		}
		args = append(args, recv.v)
	}
	for _, arg := range call.Args {
		args = append(args, fr.get(arg))
	}
	return
}

// call interprets a call to a function (function, builtin or closure)
// fn with arguments args, returning its result.
// callpos is the position of the callsite.
func call(i *interpreter, caller *frame, callpos token.Pos, fn value, args []value) value {
	switch fn := fn.(type) {
	case *ssa.Function:
		if fn == nil {
			panic(goRuntimeError("runtime error: invalid memory address or nil pointer dereference (call of nil func)"))
		}
		return callSSA(i, caller, callpos, fn, args, nil)
	case *closure:
		return callSSA(i, caller, callpos, fn.Fn, args, fn.Env)
	case *ssa.Builtin:
		return callBuiltin(caller, callpos, fn, args)
	case *rtypeMethod:
		return callRtypeMethod(i, fn, args)
	case *hostFunc:
		return fn.f(caller, args)
	}
	panic(fmt.Sprintf("cannot call %T", fn))
}

// hostFunc is a function value implemented by the engine.
type hostFunc struct {
	name string
	f    func(fr *frame, args []value) value
}

func loc(fset *token.FileSet, pos token.Pos) string {
	if pos == token.NoPos {
		return ""
	}
	p := fset.Position(pos)
	return fmt.Sprintf("%s:%d", p.Filename, p.Line)
}

// callSSA interprets a call to function fn with arguments args,
// and lexical environment env, returning its result.
func callSSA(i *interpreter, caller *frame, callpos token.Pos, fn *ssa.Function, args []value, env []value) value {
	fr := &frame{
		i:      i,
		caller: caller, // for panic/recover
		fn:     fn,
	}
	name := ""
	if fn.Parent() == nil {
		meta := metaOf(fn)
		name = meta.name
		if meta.plain && len(i.stubs) == 0 {
			goto run
		}
		if st := i.stubs[name]; st != nil && st != fn {
			if ex != nil {
				ex.IntrinsicHit["stub:"+name]++
			}
			return callSSA(i, caller, callpos, st, args, nil)
		}
		if ext := meta.ext; ext != nil {
			if ex != nil {
				ex.IntrinsicHit[name]++
			}
			return ext(fr, args)
		}
		if v, ok := protoEnumString(i, fr, fn, args); ok {
			return v
		}
		if pkg := fn.Package(); pkg != nil {
			pp := pkg.Pkg.Path()
			if strings.HasSuffix(pp, "zzverif/nd") {
				return callND(fr, fn.Name(), args)
			}
			if pp == "github.com/sirupsen/logrus" {
				return callLogrus(fr, fn, args)
			}
		}
		if meta.plain {
			goto run
		}
		if fn.Blocks == nil {
			ensureBuilt(fn)
		}
		if fn.Blocks == nil {
			panic(pathEnd{peUnsupported, "no code for function: " + name})
		}
	}
run:
	if fn.Blocks == nil {
		ensureBuilt(fn)
	}
	if i.trace {
		fmt.Fprintf(os.Stderr, "%*sEntering %s\n", exDepth(), "", fn)
	}

	// generic function body?
	if fn.TypeParams().Len() > 0 && len(fn.TypeArgs()) == 0 {
		panic(pathEnd{peUnsupported, "uninstantiated generic function " + fn.String()})
	}
	if ex != nil {
		ex.depth++
		if ex.depth > ex.maxDepth {
			panic(pathEnd{peBudget, fmt.Sprintf("call depth %d exceeded in %s", ex.maxDepth, fn)})
		}
		defer func() { ex.depth-- }()
		if name != "" {
			ex.FuncsHit[name]++
		}
	}

	info := infoOf(fn)
	fr.idx = info.idx
	fr.env = make([]value, info.n)
	fr.block = fn.Blocks[0]
	fr.locals = make([]value, len(fn.Locals))
	for i, l := range fn.Locals {
		fr.locals[i] = zero(mustDeref(l.Type()))
		fr.set(l, &fr.locals[i])
	}
	for i, p := range fn.Params {
		fr.set(p, args[i])
	}
	for i, fv := range fn.FreeVars {
		fr.set(fv, env[i])
	}
	for fr.block != nil {
		runFrame(fr)
	}
	return fr.result
}

func exDepth() int {
	if ex != nil {
		return ex.depth
	}
	return 0
}

// runFrame executes SSA instructions starting at fr.block and
// continuing until a return, a panic, or a recovered panic.
func runFrame(fr *frame) {
	defer func() {
		if fr.block == nil {
			return // normal return
		}
		r := recover()
		if isEnginePanic(r) {
			panic(r)
		}
		if r == nil {
			// runtime.Goexit or similar
			panic(pathEnd{peUnsupported, "nil panic in runFrame"})
		}
		fr.panicking = true
		fr.panic = r
		if lastPanic.payload != r {
			// innermost frame that sees this panic: remember where it happened
			lastPanic.payload = r
			lastPanic.where = fr.fn.String() + " (" + loc(fr.fn.Prog.Fset, fr.curPos) + ")"
			if _, isRT := r.(goRuntimeError); isRT {
				// runtime errors raised inside the target (nil dereference, index out of range,
				// failed type assertion): if the target recovers them they never surface, so
				// they are recorded per site for audit — one of them turned out to be an
				// artefact of the executor (writes to the unmodelled os.Stderr)
				runtimeErrorSites[lastPanic.where+": "+describePanic(r)]++
			}
			if os.Getenv("GOSYM_PANICS") != "" {
				fmt.Fprintf(os.Stderr, "TARGET-PANIC %T %v @ %s\n", r, describePanic(r), lastPanic.where)
			}
		}
		if fr.i.trace {
			fmt.Fprintf(os.Stderr, "Panicking in %s: %T %v.\n", fr.fn, fr.panic, describePanic(fr.panic))
		}
		fr.runDefers()
		fr.block = fr.fn.Recover
		if fr.block == nil {
			// recovered in a function without named results: return zero values
			fr.result = zeroResult(fr.fn)
		}
	}()

	for {
		nonPhis := executePhis(fr)
		for _, instr := range nonPhis {
			if ex != nil {
				ex.countStep()
			}
			if fr.i.trace {
				if v, ok := instr.(ssa.Value); ok {
					fmt.Fprintln(os.Stderr, "\t", v.Name(), "=", instr)
				} else {
					fmt.Fprintln(os.Stderr, "\t", instr)
				}
			}
			if p := instr.Pos(); p != token.NoPos {
				fr.curPos = p
			}
			if visitInstr(fr, instr) == kReturn {
				return
			}
			// Inv: kNext (continue) or kJump (last instr)
		}
	}
}

func zeroResult(fn *ssa.Function) value {
	res := fn.Signature.Results()
	switch res.Len() {
	case 0:
		return nil
	case 1:
		return zero(res.At(0).Type())
	}
	t := make(tuple, res.Len())
	for i := range t {
		t[i] = zero(res.At(i).Type())
	}
	return t
}

// executePhis executes the phi-nodes at the start of the current
// block and returns the non-phi instructions.
func executePhis(fr *frame) []ssa.Instruction {
	firstNonPhi := -1
	for i, instr := range fr.block.Instrs {
		if _, ok := instr.(*ssa.Phi); !ok {
			firstNonPhi = i
			break
		}
	}
	nonPhis := fr.block.Instrs[firstNonPhi:]
	if firstNonPhi > 0 {
		phis := fr.block.Instrs[:firstNonPhi]
		predIndex := slices.Index(fr.block.Preds, fr.prevBlock)
		fr.phitemps = fr.phitemps[:0]
		for _, phi := range phis {
			phi := phi.(*ssa.Phi)
			fr.phitemps = append(fr.phitemps, fr.get(phi.Edges[predIndex]))
		}
		for i, phi := range phis {
			fr.set(phi.(*ssa.Phi), fr.phitemps[i])
		}
	}
	return nonPhis
}

// doRecover implements the recover() built-in.
func doRecover(caller *frame) value {
	// recover() must be exactly one level beneath the deferred
	// function (two levels beneath the panicking function) to
	// have any effect.
	if caller != nil && !caller.panicking &&
		caller.caller != nil && caller.caller.panicking {
		caller.caller.panicking = false
		p := caller.caller.panic
		caller.caller.panic = nil
		return panicValue(caller.i, p)
	}
	return iface{}
}

// panicValue converts a host panic payload to the target's interface value.
func panicValue(i *interpreter, p interface{}) value {
	switch p := p.(type) {
	case targetPanic:
		// The target program explicitly called panic().
		return p.v
	case goRuntimeError:
		return iface{i.runtimeErrorString, strings.TrimPrefix(string(p), "runtime error: ")}
	case runtime.Error:
		// The interpreter encountered a runtime error.
		return iface{i.runtimeErrorString, "host: " + strings.TrimPrefix(p.Error(), "runtime error: ")}
	case string:
		// The interpreter explicitly called panic().
		return iface{i.runtimeErrorString, "host: " + p}
	default:
		panic(fmt.Sprintf("unexpected panic type %T in target call to recover()", p))
	}
}

var builtPkgs = map[*ssa.Package]bool{}

// ensureBuilt builds the SSA bodies of fn's package on first use.
func ensureBuilt(fn *ssa.Function) {
	f := fn
	for f.Parent() != nil {
		f = f.Parent()
	}
	if o := f.Origin(); o != nil {
		f = o
	}
	pkg := f.Pkg
	if pkg == nil {
		if f.Object() != nil && f.Object().Pkg() != nil {
			pkg = fn.Prog.Package(f.Object().Pkg())
		}
	}
	if pkg == nil || builtPkgs[pkg] {
		return
	}
	builtPkgs[pkg] = true
	pkg.Build()
}

type fnInfo struct {
	idx map[ssa.Value]int32
	n   int
}

var fnInfos = map[*ssa.Function]*fnInfo{}

func infoOf(fn *ssa.Function) *fnInfo {
	if in, ok := fnInfos[fn]; ok {
		return in
	}
	in := &fnInfo{idx: map[ssa.Value]int32{}}
	add := func(v ssa.Value) {
		if _, ok := in.idx[v]; !ok {
			in.idx[v] = int32(in.n)
			in.n++
		}
	}
	for _, p := range fn.Params {
		add(p)
	}
	for _, fv := range fn.FreeVars {
		add(fv)
	}
	for _, l := range fn.Locals {
		add(l)
	}
	for _, b := range fn.Blocks {
		for _, instr := range b.Instrs {
			if v, ok := instr.(ssa.Value); ok {
				add(v)
			}
		}
	}
	fnInfos[fn] = in
	return in
}

func (fr *frame) set(k ssa.Value, v value) {
	fr.env[fr.idx[k]] = v
}

// selectByte returns x[idx] for a concrete string and a symbolic index as an
// if-then-else term (after forking on the bounds check), avoiding one fork per value.
func selectByte(x string, si sym) value {
	w := si.t.w
	n := len(x)
	t64 := Resize(si.t, 64, kindSigned(si.k))
	var inb *Term
	if kindSigned(si.k) {
		inb = And(Bin(OSle, BV(64, 0), t64), Bin(OSlt, t64, BV(64, uint64(n))))
	} else {
		inb = Bin(OUlt, t64, BV(64, uint64(n)))
	}
	if !ex.Branch(inb) {
		panic(goRuntimeError(fmt.Sprintf("runtime error: index out of range [symbolic] with length %d", n)))
	}
	res := BV(8, uint64(x[n-1]))
	for i := n - 2; i >= 0; i-- {
		res = Ite(Eq(si.t, BV(w, uint64(i))), BV(8, uint64(x[i])), res)
	}
	return mkVal(types.Uint8, res)
}

// symElemPtr is the address of elems[idx] for a symbolic idx; it only ever
// reaches load instructions (see symSelectable).
type symElemPtr struct {
	elems []value
	idx   sym
}

// symSelectable: the element address is only loaded from, and the table is
// small and holds concrete integers, so the read can be an if-then-else term.
func symSelectable(instr *ssa.IndexAddr, elems []value) bool {
	if len(elems) == 0 || len(elems) > 256 {
		return false
	}
	refs := instr.Referrers()
	if refs == nil || len(*refs) == 0 {
		return false
	}
	for _, r := range *refs {
		u, ok := r.(*ssa.UnOp)
		if !ok || u.Op != token.MUL {
			return false
		}
	}
	for _, e := range elems {
		if _, ok := elemGroupKey(e); !ok {
			return false
		}
	}
	return true
}

// elemGroupKey identifies a table element up to observable identity.
func elemGroupKey(e value) (interface{}, bool) {
	switch x := e.(type) {
	case []value:
		if x == nil {
			return "nilslice", true
		}
		if len(x) == 0 {
			return "emptyslice", true
		}
		return [2]interface{}{&x[0], len(x)}, true
	case *value:
		return x, true
	case string:
		return "s:" + x, true
	case bool:
		return x, true
	}
	if u, k, ok := intInfo(e); ok {
		return [2]interface{}{u, k}, true
	}
	return nil, false
}

func (p symElemPtr) load() value {
	n := len(p.elems)
	t64 := Resize(p.idx.t, 64, kindSigned(p.idx.k))
	var inb *Term
	if kindSigned(p.idx.k) {
		inb = And(Bin(OSle, BV(64, 0), t64), Bin(OSlt, t64, BV(64, uint64(n))))
	} else {
		inb = Bin(OUlt, t64, BV(64, uint64(n)))
	}
	if !ex.Branch(inb) {
		panic(goRuntimeError(fmt.Sprintf("runtime error: index out of range [symbolic] with length %d", n)))
	}
	if _, _, isInt := intInfo(p.elems[0]); !isInt {
		// fork once per distinct element rather than once per index
		var keys []interface{}
		groups := map[interface{}][]int{}
		for i, e := range p.elems {
			k, _ := elemGroupKey(e)
			if _, seen := groups[k]; !seen {
				keys = append(keys, k)
			}
			groups[k] = append(groups[k], i)
		}
		alts := make([]*Term, len(keys))
		for gi, k := range keys {
			var ors []*Term
			for _, i := range groups[k] {
				ors = append(ors, Eq(t64, BV(64, uint64(i))))
			}
			alts[gi] = Or(ors...)
		}
		// the largest group is expressed as "none of the others" to keep terms small
		big := 0
		for gi, k := range keys {
			if len(groups[k]) > len(groups[keys[big]]) {
				big = gi
			}
		}
		var others []*Term
		for gi := range keys {
			if gi != big {
				others = append(others, alts[gi])
			}
		}
		alts[big] = Not(Or(others...))
		g := ex.Fork("tbl", alts)
		return copyVal(p.elems[groups[keys[g]][0]])
	}
	u, k, _ := intInfo(p.elems[n-1])
	w := kindBits(k)
	res := BV(w, u)
	for i := n - 2; i >= 0; i-- {
		u, _, _ := intInfo(p.elems[i])
		res = Ite(Eq(t64, BV(64, uint64(i))), BV(w, u), res)
	}
	return mkVal(k, res)
}

// fnMeta caches per-function facts that are expensive to recompute on every call.
type fnMeta struct {
	name  string
	ext   externalFn
	plain bool // no external, not nd/logrus, not a proto enum String: just interpret the body
}

var fnMetas = map[*ssa.Function]*fnMeta{}

func metaOf(fn *ssa.Function) *fnMeta {
	if m, ok := fnMetas[fn]; ok {
		return m
	}
	m := &fnMeta{}
	m.name = fn.String()
	if fn.Origin() != nil {
		m.name = fn.Origin().String()
	}
	m.ext = externals[m.name]
	special := m.ext != nil
	if pkg := fn.Package(); pkg != nil {
		pp := pkg.Pkg.Path()
		if strings.HasSuffix(pp, "zzverif/nd") || pp == "github.com/sirupsen/logrus" {
			special = true
		}
	}
	if fn.Name() == "String" && fn.Signature.Recv() != nil {
		special = true // possibly a protobuf enum
	}
	if fn.Blocks == nil {
		ensureBuilt(fn)
		if fn.Blocks == nil {
			special = true
		}
	}
	m.plain = !special
	fnMetas[fn] = m
	return m
}

type methKey struct {
	t types.Type
	m *types.Func
}

var methCache = map[methKey]*ssa.Function{}
