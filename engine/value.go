// Copyright 2013 The Go Authors. All rights reserved.
// Use of this source code is governed by a BSD-style
// license that can be found in the LICENSE file.
//
// Derived from golang.org/x/tools/go/ssa/interp (v0.29.0); extended with
// symbolic scalars, symbolic strings and insertion-ordered maps.

package main

// Values
//
// All interpreter values are "boxed" in the empty interface, value.
// The range of possible dynamic types within value are:
//
// - bool, sym{Bool}
// - numbers (all built-in int/float/complex types are distinguished), sym
// - string, sstr
// - *omap --- maps
// - chan value
// - []value --- slices
// - iface --- interfaces.
// - structure --- structs.  Fields are ordered and accessed by numeric indices.
// - array --- arrays.
// - *value --- pointers.  Careful: *value is a distinct type from *array etc.
// - *ssa.Function \
//   *ssa.Builtin   } --- functions.  A nil 'func' is always of type *ssa.Function.
//   *closure      /
// - tuple --- as returned by Return, Next, "value,ok" modes, etc.
// - iter --- iterators from 'range' over map or string.
// - bad --- a poison pill for locals that have gone out of scope.
// - rtype -- the interpreter's concrete implementation of reflect.Type
// - **deferred -- the address of a frame's defer stack for a Defer._Stack.

import (
	"bytes"
	"fmt"
	"go/types"
	"unicode/utf8"
	"unsafe"

	"golang.org/x/tools/go/ssa"
	"golang.org/x/tools/go/types/typeutil"
)

type value interface{}

type tuple []value

type array []value

type iface struct {
	t types.Type // never an "untyped" type
	v value
}

type structure []value

// For map, array, *array, slice, string or channel.
type iter interface {
	// next returns a Tuple (key, value, ok).
	next() tuple
}

type closure struct {
	Fn  *ssa.Function
	Env []value
}

type bad struct{}

type rtype struct {
	t types.Type
}

var typeIDs typeutil.Map
var typeIDseq int

func typeID(t types.Type) int {
	if t == nil {
		return 0
	}
	if v := typeIDs.At(t); v != nil {
		return v.(int)
	}
	typeIDseq++
	typeIDs.Set(t, typeIDseq)
	return typeIDseq
}

// nil-tolerant variant of types.Identical.
func sameType(x, y types.Type) bool {
	if x == nil {
		return y == nil
	}
	return y != nil && types.Identical(x, y)
}

// eqTerm returns the Go equality x == y for static type t as a term.
func eqTerm(t types.Type, x, y value) *Term {
	switch x := x.(type) {
	case bool, sym:
		if _, ok := y.(iface); ok {
			break
		}
		tx, _ := termOf(x)
		ty, _ := termOf(y)
		return Eq(tx, ty)
	case float32:
		return BoolT(x == y.(float32))
	case float64:
		return BoolT(x == y.(float64))
	case complex64:
		return BoolT(x == y.(complex64))
	case complex128:
		return BoolT(x == y.(complex128))
	case string, sstr:
		return strEqTerm(x, y)
	case *value:
		return BoolT(x == y.(*value))
	case chan value:
		return BoolT(x == y.(chan value))
	case unsafe.Pointer:
		return BoolT(x == y.(unsafe.Pointer))
	case structure:
		y := y.(structure)
		var tStruct *types.Struct
		if t != nil {
			tStruct, _ = t.Underlying().(*types.Struct)
		}
		cs := []*Term{}
		for i := range x {
			var ft types.Type
			if tStruct != nil {
				f := tStruct.Field(i)
				if f.Name() == "_" {
					continue
				}
				ft = f.Type()
			}
			c := eqTerm(ft, x[i], y[i])
			if c == FalseT {
				return FalseT
			}
			cs = append(cs, c)
		}
		return And(cs...)
	case array:
		y := y.(array)
		var et types.Type
		if t != nil {
			et = t.Underlying().(*types.Array).Elem()
		}
		cs := []*Term{}
		for i := range x {
			c := eqTerm(et, x[i], y[i])
			if c == FalseT {
				return FalseT
			}
			cs = append(cs, c)
		}
		return And(cs...)
	case iface:
		y := y.(iface)
		if !sameType(x.t, y.t) {
			return FalseT
		}
		if x.t == nil {
			return TrueT
		}
		if !types.Comparable(x.t) {
			panic(goRuntimeError("runtime error: comparing uncomparable type " + x.t.String()))
		}
		return eqTerm(x.t, x.v, y.v)
	case rtype:
		return BoolT(types.Identical(x.t, y.(rtype).t))
	case *omap:
		return BoolT(x == y.(*omap))
	case []value:
		// only reachable through interface comparison of uncomparable types
		panic(goRuntimeError("runtime error: comparing uncomparable type " + fmt.Sprint(t)))
	case *ssa.Function, *closure, *ssa.Builtin:
		panic(goRuntimeError("runtime error: comparing uncomparable type " + fmt.Sprint(t)))
	}
	if ux, _, ok := intInfo(x); ok {
		if s, ok := y.(sym); ok {
			tx, _ := termOf(x)
			return Eq(tx, s.t)
		}
		uy, _, ok := intInfo(y)
		if !ok {
			panic(fmt.Sprintf("eqTerm: int vs %T", y))
		}
		return BoolT(ux == uy)
	}
	panic(fmt.Sprintf("eqTerm: comparing uncomparable type %v (%T)", t, x))
}

// equals returns x == y, forking when the answer depends on symbolic data.
func equals(t types.Type, x, y value) bool {
	return ex.Branch(eqTerm(t, x, y))
}

// reflect.Value struct values don't have a fixed shape, since the
// payload can be a scalar or an aggregate depending on the instance.
// So store (and load) can't simply use recursion over the shape of the
// rhs value, or the lhs, to copy the value; we need the static type
// information.

// load returns the value of type T in *addr.
func load(T types.Type, addr *value) value {
	switch T := T.Underlying().(type) {
	case *types.Struct:
		v := (*addr).(structure)
		a := make(structure, len(v))
		for i := range a {
			a[i] = load(T.Field(i).Type(), &v[i])
		}
		return a
	case *types.Array:
		v := (*addr).(array)
		a := make(array, len(v))
		for i := range a {
			a[i] = load(T.Elem(), &v[i])
		}
		return a
	default:
		return *addr
	}
}

// store stores value v of type T into *addr.
func store(T types.Type, addr *value, v value) {
	switch T := T.Underlying().(type) {
	case *types.Struct:
		lhs := (*addr).(structure)
		rhs := v.(structure)
		for i := range lhs {
			store(T.Field(i).Type(), &lhs[i], rhs[i])
		}
	case *types.Array:
		lhs := (*addr).(array)
		rhs := v.(array)
		for i := range lhs {
			store(T.Elem(), &lhs[i], rhs[i])
		}
	default:
		*addr = v
	}
}

// copyVal deep-copies aggregates (struct/array) so that stored copies do not alias.
func copyVal(v value) value {
	switch x := v.(type) {
	case structure:
		a := make(structure, len(x))
		for i := range x {
			a[i] = copyVal(x[i])
		}
		return a
	case array:
		a := make(array, len(x))
		for i := range x {
			a[i] = copyVal(x[i])
		}
		return a
	}
	return v
}

// Prints in the style of built-in println.
func writeValue(buf *bytes.Buffer, v value) {
	switch v := v.(type) {
	case nil, bool, int, int8, int16, int32, int64, uint, uint8, uint16, uint32, uint64, uintptr, float32, float64, complex64, complex128, string:
		fmt.Fprintf(buf, "%v", v)
	case sym:
		fmt.Fprintf(buf, "<sym %v>", v.t)
	case sstr:
		buf.WriteString("<sstr ")
		for _, b := range v.b {
			if c, ok := b.(uint8); ok {
				buf.WriteByte(c)
			} else {
				buf.WriteString("?")
			}
		}
		buf.WriteString(">")
	case *omap:
		buf.WriteString("map[")
		sep := ""
		if v != nil {
			for _, e := range v.entries {
				if e.deleted {
					continue
				}
				buf.WriteString(sep)
				sep = " "
				writeValue(buf, e.k)
				buf.WriteString(":")
				writeValue(buf, e.v)
			}
		}
		buf.WriteString("]")

	case chan value:
		fmt.Fprintf(buf, "%v", v) // (an address)

	case *value:
		if v == nil {
			buf.WriteString("<nil>")
		} else {
			fmt.Fprintf(buf, "%p", v)
		}

	case iface:
		fmt.Fprintf(buf, "(%s, ", v.t)
		writeValue(buf, v.v)
		buf.WriteString(")")

	case structure:
		buf.WriteString("{")
		for i, e := range v {
			if i > 0 {
				buf.WriteString(" ")
			}
			writeValue(buf, e)
		}
		buf.WriteString("}")

	case array:
		buf.WriteString("[")
		for i, e := range v {
			if i > 0 {
				buf.WriteString(" ")
			}
			writeValue(buf, e)
		}
		buf.WriteString("]")

	case []value:
		buf.WriteString("[")
		for i, e := range v {
			if i > 0 {
				buf.WriteString(" ")
			}
			writeValue(buf, e)
		}
		buf.WriteString("]")

	case *ssa.Function, *ssa.Builtin, *closure:
		fmt.Fprintf(buf, "%p", v) // (an address)

	case rtype:
		buf.WriteString(v.t.String())

	case tuple:
		// Unreachable in well-formed Go programs
		buf.WriteString("(")
		for i, e := range v {
			if i > 0 {
				buf.WriteString(", ")
			}
			writeValue(buf, e)
		}
		buf.WriteString(")")

	default:
		fmt.Fprintf(buf, "<%T>", v)
	}
}

// Implements printing of Go values in the style of built-in println.
func toString(v value) string {
	var b bytes.Buffer
	writeValue(&b, v)
	return b.String()
}

// ------------------------------------------------------------------------
// Iterators

// stringIter ranges over the runes of a string. Symbolic bytes are
// concretised only as far as UTF-8 decoding needs (lead byte class).
type stringIter struct {
	b []value
	i int
}

func (it *stringIter) next() tuple {
	if it.i >= len(it.b) {
		return tuple{false, 0, int32(0)}
	}
	start := it.i
	b0 := it.b[it.i]
	if s, ok := b0.(sym); ok {
		// ASCII fast path: fork on b0 < 0x80
		if ex.Branch(Bin(OUlt, s.t, BV(8, 0x80))) {
			it.i++
			return tuple{true, start, mkVal(types.Int32, Zext(s.t, 32))}
		}
		// multi-byte: concretise the bytes of this rune
		b0 = cint(b0)
	}
	c0 := b0.(uint8)
	if c0 < utf8.RuneSelf {
		it.i++
		return tuple{true, start, int32(c0)}
	}
	// gather up to 4 bytes, concretising
	var buf [4]byte
	n := 0
	for j := it.i; j < len(it.b) && n < 4; j++ {
		bj := it.b[j]
		if j == it.i {
			bj = b0
		}
		bj = cint(bj)
		buf[n] = bj.(uint8)
		n++
	}
	r, size := utf8.DecodeRune(buf[:n])
	it.i += size
	return tuple{true, start, int32(r)}
}

type mapIter struct {
	m     *omap
	order []*mentry // fixed order if non-nil (AnyMapOrder)
	i     int
}

func (it *mapIter) next() tuple {
	if it.m == nil {
		return tuple{false, nil, nil}
	}
	if it.order != nil {
		for it.i < len(it.order) {
			e := it.order[it.i]
			it.i++
			if !e.deleted {
				return tuple{true, e.k, copyVal(e.v)}
			}
		}
		return tuple{false, nil, nil}
	}
	for it.i < len(it.m.entries) {
		e := it.m.entries[it.i]
		it.i++
		if !e.deleted {
			return tuple{true, e.k, copyVal(e.v)}
		}
	}
	return tuple{false, nil, nil}
}
