package main

// A long-lived SMT solver process (z3 -in, z3-new -in or cvc5 --incremental)
// driven through SMT-LIB2 text.  Shared sub-terms are introduced once per
// solver level with define-fun so that queries stay linear in DAG size.

import (
	"bufio"
	"fmt"
	"io"
	"os"
	"os/exec"
	"strconv"
	"strings"
	"time"
)

type Verdict int

const (
	Sat Verdict = iota
	Unsat
	Unknown
)

func (v Verdict) String() string { return [...]string{"sat", "unsat", "unknown"}[v] }

type Solver struct {
	name    string
	cmd     *exec.Cmd
	in      io.WriteCloser
	out     *bufio.Reader
	level   int
	defs    [][]*Term // per level: terms named at that level
	named   map[*Term]string
	decls   [][]*Term // per level: vars declared at that level
	declSet map[*Term]bool
	log     io.Writer

	Queries   int
	NSat      int
	NUnsat    int
	NUnknown  int
	NErrors   int
	SolveTime time.Duration
	ModelTime time.Duration
}

func NewSolver(kind string, timeoutMs int, logPath string) (*Solver, error) {
	var cmd *exec.Cmd
	switch kind {
	case "z3", "":
		kind = "z3"
		cmd = exec.Command("z3", "-in", fmt.Sprintf("-t:%d", timeoutMs))
	case "z3-new":
		cmd = exec.Command("z3-new", "-in", fmt.Sprintf("-t:%d", timeoutMs))
	case "cvc5":
		cmd = exec.Command("cvc5", "--incremental", "--lang=smt2", fmt.Sprintf("--tlimit-per=%d", timeoutMs), "--produce-models")
	default:
		return nil, fmt.Errorf("unknown solver %q", kind)
	}
	in, err := cmd.StdinPipe()
	if err != nil {
		return nil, err
	}
	outp, err := cmd.StdoutPipe()
	if err != nil {
		return nil, err
	}
	cmd.Stderr = os.Stderr
	if err := cmd.Start(); err != nil {
		return nil, err
	}
	s := &Solver{name: kind, cmd: cmd, in: in, out: bufio.NewReaderSize(outp, 1<<16),
		named: map[*Term]string{}, declSet: map[*Term]bool{}, defs: [][]*Term{nil}, decls: [][]*Term{nil}}
	if logPath != "" {
		f, err := os.Create(logPath)
		if err == nil {
			s.log = f
		}
	}
	s.send("(set-option :produce-models true)")
	if kind == "cvc5" {
		s.send("(set-logic QF_BV)")
	}
	return s, nil
}

func (s *Solver) Close() {
	if s == nil || s.cmd == nil {
		return
	}
	s.in.Close()
	done := make(chan struct{})
	go func() { s.cmd.Wait(); close(done) }()
	select {
	case <-done:
	case <-time.After(2 * time.Second):
		s.cmd.Process.Kill()
	}
}

func (s *Solver) send(line string) {
	if s.log != nil {
		fmt.Fprintln(s.log, line)
	}
	io.WriteString(s.in, line)
	io.WriteString(s.in, "\n")
}

func (s *Solver) Push() {
	s.send("(push 1)")
	s.level++
	s.defs = append(s.defs, nil)
	s.decls = append(s.decls, nil)
}

func (s *Solver) Pop() {
	if s.level == 0 {
		panic("solver: pop at level 0")
	}
	s.send("(pop 1)")
	for _, t := range s.defs[s.level] {
		delete(s.named, t)
	}
	for _, t := range s.decls[s.level] {
		delete(s.declSet, t)
	}
	s.defs = s.defs[:s.level]
	s.decls = s.decls[:s.level]
	s.level--
}

// ref returns the SMT text for t, emitting declarations/definitions as needed.
func (s *Solver) ref(t *Term) string {
	switch t.op {
	case OConst:
		return constStr(t)
	case OVar:
		if !s.declSet[t] {
			s.send(fmt.Sprintf("(declare-const %s %s)", t.name, sortStr(t.w)))
			s.declSet[t] = true
			s.decls[s.level] = append(s.decls[s.level], t)
		}
		return t.name
	}
	if n, ok := s.named[t]; ok {
		return n
	}
	parts := make([]string, len(t.args))
	for i, a := range t.args {
		parts[i] = s.ref(a)
	}
	var body string
	switch t.op {
	case OZext:
		body = fmt.Sprintf("((_ zero_extend %d) %s)", t.w-t.args[0].w, parts[0])
	case OSext:
		body = fmt.Sprintf("((_ sign_extend %d) %s)", t.w-t.args[0].w, parts[0])
	case OExtr:
		body = fmt.Sprintf("((_ extract %d %d) %s)", int(t.val)+t.w-1, t.val, parts[0])
	default:
		body = "(" + opNames[t.op] + " " + strings.Join(parts, " ") + ")"
	}
	n := fmt.Sprintf("t%d", t.id)
	s.send(fmt.Sprintf("(define-fun %s () %s %s)", n, sortStr(t.w), body))
	s.named[t] = n
	s.defs[s.level] = append(s.defs[s.level], t)
	return n
}

func (s *Solver) Assert(t *Term) {
	r := s.ref(t)
	s.send("(assert " + r + ")")
}

func (s *Solver) readLine() string {
	line, err := s.out.ReadString('\n')
	if err != nil {
		return "(error \"solver died: " + err.Error() + "\")"
	}
	return strings.TrimSpace(line)
}

func (s *Solver) Check() Verdict {
	s.Queries++
	t0 := time.Now()
	s.send("(check-sat)")
	var v Verdict
	for {
		line := s.readLine()
		if line == "" {
			continue
		}
		switch {
		case line == "sat":
			v = Sat
			s.NSat++
		case line == "unsat":
			v = Unsat
			s.NUnsat++
		case line == "unknown" || strings.HasPrefix(line, "timeout"):
			v = Unknown
			s.NUnknown++
		case strings.HasPrefix(line, "(error"):
			fmt.Fprintln(os.Stderr, "solver error:", line)
			s.NErrors++
			if strings.Contains(line, "solver died") {
				s.SolveTime += time.Since(t0)
				return Unknown
			}
			continue
		default:
			fmt.Fprintln(os.Stderr, "solver says:", line)
			continue
		}
		break
	}
	s.SolveTime += time.Since(t0)
	return v
}

var _ = strconv.Itoa

func (s *Solver) GetModel(vars []*Term) map[string]uint64 {
	m := map[string]uint64{}
	if len(vars) == 0 {
		return m
	}
	var names []string
	for _, v := range vars {
		if s.declSet[v] {
			names = append(names, v.name)
		}
	}
	if len(names) == 0 {
		return m
	}
	t0 := time.Now()
	defer func() { s.ModelTime += time.Since(t0) }()
	s.send("(get-value (" + strings.Join(names, " ") + "))")
	// read balanced s-expression
	depth := 0
	var sb strings.Builder
	started := false
	for {
		line := s.readLine()
		if strings.HasPrefix(line, "(error") {
			fmt.Fprintln(os.Stderr, "solver error (get-value):", line)
			s.NErrors++
			return m
		}
		sb.WriteString(line)
		sb.WriteString(" ")
		for _, c := range line {
			if c == '(' {
				depth++
				started = true
			} else if c == ')' {
				depth--
			}
		}
		if started && depth <= 0 {
			break
		}
	}
	txt := sb.String()
	// tokens: ( ( name value ) ( name value ) )
	txt = strings.NewReplacer("(", " ( ", ")", " ) ").Replace(txt)
	toks := strings.Fields(txt)
	for i := 0; i+1 < len(toks); i++ {
		if toks[i] == "(" && i+3 < len(toks) && toks[i+1] != "(" {
			name, val := toks[i+1], toks[i+2]
			if val == "(" { // (_ bvN w)
				if i+4 < len(toks) && toks[i+3] == "_" && strings.HasPrefix(toks[i+4], "bv") {
					u, _ := strconv.ParseUint(toks[i+4][2:], 10, 64)
					m[name] = u
				}
				continue
			}
			switch {
			case val == "true":
				m[name] = 1
			case val == "false":
				m[name] = 0
			case strings.HasPrefix(val, "#x"):
				u, _ := strconv.ParseUint(val[2:], 16, 64)
				m[name] = u
			case strings.HasPrefix(val, "#b"):
				u, _ := strconv.ParseUint(val[2:], 2, 64)
				m[name] = u
			}
		}
	}
	return m
}
