package main

// Path exploration: stateless depth-first search by re-execution.
//
// A path is the sequence of choices taken at *forks* (points where the
// interpreter needs a concrete decision that depends on symbolic data).
// The solver's assertion stack mirrors the choice trail: level k+1 holds the
// constraint of choice k and all assumptions made before choice k+1.

import (
	"fmt"
	"os"
	"sort"
	"strings"
	"time"
)

type choicePoint struct {
	alts []*Term // mutually exclusive alternatives (constraint of each)
	cur  int     // index taken
	tag  string
	aux  uint64 // fork-specific data that must survive re-execution

	// sharding state on entry to this fork: this worker is member inW of a group of inN
	// workers that share the path so far
	inW, inN int
}

// allowed reports whether alternative j of cp belongs to this worker's share.
func (cp *choicePoint) allowed(j int) bool {
	n := len(cp.alts)
	switch {
	case cp.inN <= 1:
		return true
	case n >= cp.inN:
		return j%cp.inN == cp.inW
	default:
		return j == cp.inW%n
	}
}

// after returns the sharding state below alternative j.
func (cp *choicePoint) after(j int) (int, int) {
	n := len(cp.alts)
	if cp.inN <= 1 || n >= cp.inN {
		return 0, 1
	}
	g := cp.inW % n
	return cp.inW / n, (cp.inN - g + n - 1) / n
}

type pathEndKind int

const (
	peDone         pathEndKind = iota
	peInfeasible               // an assumption made the path infeasible
	peUnsupported              // the engine cannot model something on this path
	peBudget                   // step / depth budget exceeded (unwinding assertion)
	peInconclusive             // solver unknown/timeout/error
	pePanic                    // target panic escaped the harness
	peExit                     // os.Exit / logrus.Fatal reached outside nd.Recovered
	peSkipped                  // subtree owned by another shard
)

var peNames = [...]string{"done", "infeasible", "unsupported", "budget", "inconclusive", "panic", "exit", "skipped"}

// pathEnd is thrown as a host panic to abandon the current path.
type pathEnd struct {
	kind pathEndKind
	msg  string
}

type Candidate struct {
	Harness string            `json:"harness"`
	Label   string            `json:"label"`
	Kind    string            `json:"kind"` // assert | panic | budget | exit
	Msg     string            `json:"msg"`
	Values  map[string]uint64 `json:"values"`
	Strs    map[string]string `json:"strings,omitempty"`
	Path    int               `json:"path"`
	Trace   []string          `json:"trace,omitempty"`
}

type ndVar struct {
	name string
	t    *Term
}

type Explorer struct {
	solver     *Solver
	trail      []*choicePoint
	pos        int // forks passed in the current run
	startDepth int // solver depth at the beginning of the run
	firstRun   bool

	model                      map[string]uint64 // last model known to satisfy all asserted constraints
	modelOK                    bool
	pcTerms                    []*Term          // constraints of the current run in order (for reporting)
	facts                      map[*Term]bool   // literals implied by the path condition (syntactic)
	eqConst                    map[*Term]uint64 // term == constant on this path
	neqConst                   map[*Term]map[uint64]bool
	FactHits                   int
	fixed                      map[string]int64 // nd variables pinned by -fix
	shardW, shardN, shardDepth int
	curW, curN                 int     // sharding state at the current point of the run
	ndvars                     []ndVar // nd variables created in the current run
	ndseen                     map[string]int

	steps    int64
	maxSteps int64
	depth    int
	maxDepth int
	queryCap time.Duration

	// results
	Paths        int
	PathsByKind  map[string]int
	Asserts      map[string]*assertStat
	Candidates   []Candidate
	Unsupported  map[string]int
	Inconclusive int
	Forks        int
	ModelHits    int
	samples      []map[string]uint64
	FuncsHit     map[string]int
	IntrinsicHit map[string]int
	harness      string
	curPath      int
	knownLabels  map[string]bool
	maxPaths     int
	Truncated    bool
	deadline     time.Time
}

type assertStat struct {
	Reached  int `json:"reached"`
	Proved   int `json:"proved_unsat"`
	Concrete int `json:"concrete_true"`
	Failed   int `json:"failed"`
	Unknown  int `json:"unknown"`
}

var ex *Explorer // the current explorer (one per process run of a harness)

func newExplorer(s *Solver, harness string) *Explorer {
	return &Explorer{solver: s, harness: harness, firstRun: true, model: map[string]uint64{}, modelOK: true,
		PathsByKind: map[string]int{}, Asserts: map[string]*assertStat{}, Unsupported: map[string]int{},
		FuncsHit: map[string]int{}, IntrinsicHit: map[string]int{}, ndseen: map[string]int{},
		maxSteps: 5_000_000, maxDepth: 400, maxPaths: 2_000_000}
}

func (e *Explorer) beginRun() {
	e.pos = 0
	e.startDepth = e.solver.level
	e.pcTerms = e.pcTerms[:0]
	e.ndvars = e.ndvars[:0]
	e.ndseen = map[string]int{}
	e.steps = 0
	e.depth = 0
	e.curW, e.curN = e.shardW, e.shardN
	if e.curN < 1 {
		e.curW, e.curN = 0, 1
	}
	e.facts = map[*Term]bool{}
	e.eqConst = map[*Term]uint64{}
	e.neqConst = map[*Term]map[uint64]bool{}
	// the cached model is valid only for the asserted prefix; constraints
	// re-encountered during replay are re-validated against it lazily.
}

// evalModel evaluates t under the cached model.
func (e *Explorer) evalModel(t *Term) bool {
	return Eval(t, e.model, map[*Term]uint64{}) != 0
}

// refreshModel fetches a model for the current solver state (after a sat answer).
func (e *Explorer) refreshModel() {
	var vars []*Term
	for v := range e.solver.declSet {
		vars = append(vars, v)
	}
	sort.Slice(vars, func(i, j int) bool { return vars[i].id < vars[j].id })
	e.model = e.solver.GetModel(vars)
	e.modelOK = true
}

// feasible reports whether cond can hold together with the asserted constraints.
func (e *Explorer) feasible(cond *Term) Verdict {
	if cond == TrueT {
		return Sat
	}
	if cond == FalseT {
		return Unsat
	}
	if e.modelOK && e.evalModel(cond) {
		e.ModelHits++
		return Sat
	}
	e.solver.Push()
	e.solver.Assert(cond)
	v := e.solver.Check()
	if v == Sat {
		e.refreshModel() // model satisfies prefix ∧ cond, hence the prefix
	}
	e.solver.Pop()
	return v
}

// addConstraint asserts c at the current solver level.
func (e *Explorer) addConstraint(c *Term) {
	e.solver.Assert(c)
	if e.modelOK && !e.evalModel(c) {
		e.modelOK = false
	}
}

// Fork chooses among mutually exclusive, jointly exhaustive alternatives.
// It returns the index of the alternative followed on this run.
func (e *Explorer) Fork(tag string, alts []*Term) int {
	return e.forkAux(tag, alts, nil)
}

func (e *Explorer) forkAux(tag string, alts []*Term, aux *uint64) int {
	if aux == nil {
		for i, a := range alts {
			if e.known(a) == 1 {
				e.FactHits++
				return i
			}
		}
	}
	if e.pos < len(e.trail) {
		cp := e.trail[e.pos]
		if cp.tag != tag || len(cp.alts) != len(alts) {
			panic(fmt.Sprintf("engine: nondeterministic re-execution at fork %d: had %s/%d now %s/%d", e.pos, cp.tag, len(cp.alts), tag, len(alts)))
		}
		if aux != nil {
			*aux = cp.aux
		} else {
			for i := range alts {
				if alts[i] != cp.alts[i] {
					panic(fmt.Sprintf("engine: nondeterministic re-execution at fork %d (%s): alt %d differs:\n  was %v\n  now %v", e.pos, tag, i, cp.alts[i], alts[i]))
				}
			}
		}
		e.curW, e.curN = cp.after(cp.cur)
		c := cp.alts[cp.cur]
		if e.pos >= e.solver.level {
			e.solver.Push()
			e.addConstraint(c)
		}
		e.pcTerms = append(e.pcTerms, c)
		e.learn(c, true)
		e.pos++
		return cp.cur
	}
	// new fork
	e.Forks++
	cp := &choicePoint{alts: alts, tag: tag, cur: -1, inW: e.curW, inN: e.curN}
	if aux != nil {
		cp.aux = *aux
	}
	for i, a := range alts {
		if !cp.allowed(i) {
			continue
		}
		if e.known(a) == -1 {
			continue
		}
		v := e.feasible(a)
		if v == Unknown {
			e.Inconclusive++
			continue // cannot decide: skip this side, run is marked inconclusive
		}
		if v == Sat {
			cp.cur = i
			break
		}
	}
	if cp.cur < 0 {
		if cp.inN > 1 {
			panic(pathEnd{peSkipped, "no alternative of this fork in this worker's share"})
		}
		panic(pathEnd{peInfeasible, "no feasible alternative at " + tag})
	}
	e.curW, e.curN = cp.after(cp.cur)
	e.trail = append(e.trail, cp)
	e.solver.Push()
	e.addConstraint(alts[cp.cur])
	e.pcTerms = append(e.pcTerms, alts[cp.cur])
	e.learn(alts[cp.cur], true)
	e.pos++
	return cp.cur
}

// learn records literals implied by asserting c (pol = true) or ¬c.
func (e *Explorer) learn(c *Term, pol bool) {
	switch c.op {
	case OConst:
		return
	case ONot:
		e.learn(c.args[0], !pol)
		return
	case OAnd:
		if pol {
			for _, a := range c.args {
				e.learn(a, true)
			}
		}
	case OOr:
		if !pol {
			for _, a := range c.args {
				e.learn(a, false)
			}
		}
	case OEq:
		x, k := c.args[0], c.args[1]
		if x.IsConst() {
			x, k = k, x
		}
		if k.IsConst() && !x.IsConst() && x.w > 0 {
			if pol {
				e.eqConst[x] = k.val
			} else {
				m := e.neqConst[x]
				if m == nil {
					m = map[uint64]bool{}
					e.neqConst[x] = m
				}
				m[k.val] = true
			}
		}
	}
	e.facts[c] = pol
}

// known returns 1 if c is implied by the learned literals, -1 if refuted, 0 otherwise.
func (e *Explorer) known(c *Term) int {
	if c == TrueT {
		return 1
	}
	if c == FalseT {
		return -1
	}
	if v, ok := e.facts[c]; ok {
		if v {
			return 1
		}
		return -1
	}
	switch c.op {
	case ONot:
		return -e.known(c.args[0])
	case OAnd:
		all := true
		for _, a := range c.args {
			k := e.known(a)
			if k == -1 {
				return -1
			}
			if k == 0 {
				all = false
			}
		}
		if all {
			return 1
		}
	case OOr:
		all := true
		for _, a := range c.args {
			k := e.known(a)
			if k == 1 {
				return 1
			}
			if k == 0 {
				all = false
			}
		}
		if all {
			return -1
		}
	case OEq:
		x, k := c.args[0], c.args[1]
		if x.IsConst() {
			x, k = k, x
		}
		if k.IsConst() && !x.IsConst() && x.w > 0 {
			if v, ok := e.eqConst[x]; ok {
				if v == k.val {
					return 1
				}
				return -1
			}
			if e.neqConst[x][k.val] {
				return -1
			}
		}
	}
	return 0
}

// Branch decides a (possibly symbolic) boolean.
func (e *Explorer) Branch(c *Term) bool {
	if c == TrueT {
		return true
	}
	if c == FalseT {
		return false
	}
	switch e.known(c) {
	case 1:
		e.FactHits++
		return true
	case -1:
		e.FactHits++
		return false
	}
	return e.Fork("br", []*Term{c, Not(c)}) == 0
}

// Assume restricts the path to c.
func (e *Explorer) Assume(c *Term) {
	if c == TrueT {
		return
	}
	if c == FalseT {
		panic(pathEnd{peInfeasible, "assume false"})
	}
	switch e.known(c) {
	case 1:
		return
	case -1:
		panic(pathEnd{peInfeasible, "assumption refuted by path facts"})
	}
	// Assumptions are constraints of the current level.  During replay of the
	// prefix they are already asserted.
	already := !e.firstRun && e.pos <= e.startDepth && e.pos < len(e.trail)
	if !already {
		v := e.feasible(c)
		if v == Unsat {
			panic(pathEnd{peInfeasible, "assumption infeasible"})
		}
		if v == Unknown {
			e.Inconclusive++
			panic(pathEnd{peInconclusive, "solver unknown on assumption"})
		}
		e.addConstraint(c)
	}
	e.pcTerms = append(e.pcTerms, c)
	e.learn(c, true)
}

// Concretize turns a symbolic bit-vector into a concrete value by forking
// over its feasible values (one at a time, model-guided).
func (e *Explorer) Concretize(t *Term, tag string) uint64 {
	if t.IsConst() {
		return t.val
	}
	for {
		var v uint64
		if e.pos >= len(e.trail) {
			// pick a feasible value from a model
			if !e.modelOK {
				r := e.solver.Check()
				if r == Unsat {
					panic(pathEnd{peInfeasible, "infeasible at concretize"})
				}
				if r == Unknown {
					e.Inconclusive++
					panic(pathEnd{peInconclusive, "solver unknown at concretize"})
				}
				e.refreshModel()
			}
			v = Eval(t, e.model, map[*Term]uint64{})
		}
		c := BV(t.w, v)
		aux := v
		var alts []*Term
		if e.pos < len(e.trail) {
			aux = e.trail[e.pos].aux
			c = BV(t.w, aux)
		}
		alts = []*Term{Eq(t, c), Not(Eq(t, c))}
		i := e.forkAux("conc:"+tag, alts, &aux)
		if i == 0 {
			return aux
		}
	}
}

// next advances the trail to the next unexplored path; false when exhausted.
func (e *Explorer) next() bool {
	e.firstRun = false
	for len(e.trail) > 0 {
		last := len(e.trail) - 1
		cp := e.trail[last]
		for e.solver.level > last {
			e.solver.Pop()
		}
		e.modelOK = false
		found := -1
		for j := cp.cur + 1; j < len(cp.alts); j++ {
			if !cp.allowed(j) {
				continue
			}
			v := e.feasible(cp.alts[j])
			if v == Unknown {
				e.Inconclusive++
				continue
			}
			if v == Sat {
				found = j
				break
			}
		}
		if found >= 0 {
			cp.cur = found
			return true
		}
		e.trail = e.trail[:last]
	}
	return false
}

func (e *Explorer) countStep() {
	e.steps++
	if e.steps > e.maxSteps {
		panic(pathEnd{peBudget, fmt.Sprintf("step budget %d exceeded", e.maxSteps)})
	}
}

// currentModel returns a model of the current path condition.
func (e *Explorer) currentModel() (map[string]uint64, bool) {
	if !e.modelOK {
		r := e.solver.Check()
		if r != Sat {
			return nil, false
		}
		e.refreshModel()
	}
	m := map[string]uint64{}
	for _, v := range e.ndvars {
		m[v.name] = Eval(v.t, e.model, map[*Term]uint64{})
	}
	return m, true
}

func (e *Explorer) newVar(name string, w int) *Term {
	n := e.ndseen[name]
	e.ndseen[name] = n + 1
	full := name
	if n > 0 {
		full = fmt.Sprintf("%s#%d", name, n)
	}
	smt := "v_" + sanitize(full)
	t := Var(smt, w)
	e.ndvars = append(e.ndvars, ndVar{full, t})
	return t
}

func sanitize(s string) string {
	var sb strings.Builder
	for _, c := range s {
		if c >= 'a' && c <= 'z' || c >= 'A' && c <= 'Z' || c >= '0' && c <= '9' || c == '_' {
			sb.WriteRune(c)
		} else {
			fmt.Fprintf(&sb, "_%x_", c)
		}
	}
	return sb.String()
}

// Assert checks a property on the current path.
func (e *Explorer) Assert(label string, c *Term, trace func() []string) {
	st := e.Asserts[label]
	if st == nil {
		st = &assertStat{}
		e.Asserts[label] = st
	}
	if !e.firstRun && e.pos <= e.startDepth && e.pos < len(e.trail) {
		return // replayed prefix: this assertion was decided under the same path condition before
	}
	st.Reached++
	if c != FalseT && e.known(c) == 1 {
		c = TrueT
	}
	if c == TrueT {
		st.Concrete++
		return
	}
	neg := Not(c)
	var v Verdict
	if c == FalseT {
		v = Sat
	} else {
		e.solver.Push()
		e.solver.Assert(neg)
		v = e.solver.Check()
		if v == Sat {
			e.refreshModel()
			e.modelOK = false // model satisfies ¬c, which is not part of the PC
		}
		e.solver.Pop()
	}
	switch v {
	case Unsat:
		st.Proved++
		return
	case Unknown:
		st.Unknown++
		e.Inconclusive++
		return
	}
	st.Failed++
	vals := map[string]uint64{}
	if c == FalseT {
		if m, ok := e.currentModel(); ok {
			vals = m
		}
	} else {
		for _, nv := range e.ndvars {
			vals[nv.name] = Eval(nv.t, e.model, map[*Term]uint64{})
		}
	}
	cand := Candidate{Harness: e.harness, Label: label, Kind: "assert", Values: vals, Path: e.curPath}
	if trace != nil {
		cand.Trace = trace()
	}
	e.Candidates = append(e.Candidates, cand)
	if c == FalseT {
		panic(pathEnd{peDone, "assertion failed concretely: " + label})
	}
	// continue exploring the part of the path where the assertion holds
	e.Assume(c)
}

func (e *Explorer) recordEscaped(kind, msg string, trace []string) {
	vals, _ := e.currentModel()
	if vals == nil {
		vals = map[string]uint64{}
	}
	e.Candidates = append(e.Candidates, Candidate{Harness: e.harness, Label: kind, Kind: kind, Msg: msg, Values: vals, Path: e.curPath, Trace: trace})
}

func dbg(format string, a ...interface{}) {
	if os.Getenv("GOSYM_DEBUG") != "" {
		fmt.Fprintf(os.Stderr, format+"\n", a...)
	}
}
