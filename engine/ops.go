// Copyright 2013 The Go Authors. All rights reserved.
// Use of this source code is governed by a BSD-style
// license that can be found in the LICENSE file.
//
// Derived from golang.org/x/tools/go/ssa/interp (v0.29.0).

package main

import (
	"bytes"
	"fmt"
	"go/constant"
	"go/token"
	"go/types"
	"os"
	"unicode/utf8"
	"unsafe"

	"golang.org/x/tools/go/ssa"
)

// If the target program panics, the interpreter panics with this type.
type targetPanic struct {
	v value
}

func (p targetPanic) String() string {
	return toString(p.v)
}

// If the target program calls exit, the interpreter panics with this type.
type exitPanic struct {
	code int
	why  string
}

func mustDeref(t types.Type) types.Type {
	if p, ok := t.Underlying().(*types.Pointer); ok {
		return p.Elem()
	}
	panic(fmt.Sprintf("mustDeref: %v is not a pointer", t))
}

// constValue returns the value of the constant with the
// dynamic type tag appropriate for c.Type().
func constValue(c *ssa.Const) value {
	if c.Value == nil {
		return zero(c.Type()) // typed zero
	}
	// c is not a type parameter so it's underlying type is basic.

	if t, ok := c.Type().Underlying().(*types.Basic); ok {
		switch t.Kind() {
		case types.Bool, types.UntypedBool:
			return constant.BoolVal(c.Value)
		case types.Int, types.UntypedInt:
			return int(c.Int64())
		case types.Int8:
			return int8(c.Int64())
		case types.Int16:
			return int16(c.Int64())
		case types.Int32, types.UntypedRune:
			return int32(c.Int64())
		case types.Int64:
			return c.Int64()
		case types.Uint:
			return uint(c.Uint64())
		case types.Uint8:
			return uint8(c.Uint64())
		case types.Uint16:
			return uint16(c.Uint64())
		case types.Uint32:
			return uint32(c.Uint64())
		case types.Uint64:
			return c.Uint64()
		case types.Uintptr:
			return uintptr(c.Uint64())
		case types.Float32:
			return float32(c.Float64())
		case types.Float64, types.UntypedFloat:
			return c.Float64()
		case types.Complex64:
			return complex64(c.Complex128())
		case types.Complex128, types.UntypedComplex:
			return c.Complex128()
		case types.String, types.UntypedString:
			if c.Value.Kind() == constant.String {
				return constant.StringVal(c.Value)
			}
			return string(rune(c.Int64()))
		}
	}

	panic(fmt.Sprintf("constValue: %s", c))
}

// asInt64 converts x, which must be an integer, to an int64 (forking if symbolic).
func asInt64(x value) int64 {
	x = cint(x)
	switch x := x.(type) {
	case int:
		return int64(x)
	case int8:
		return int64(x)
	case int16:
		return int64(x)
	case int32:
		return int64(x)
	case int64:
		return x
	case uint:
		return int64(x)
	case uint8:
		return int64(x)
	case uint16:
		return int64(x)
	case uint32:
		return int64(x)
	case uint64:
		return int64(x)
	case uintptr:
		return int64(x)
	}
	panic(fmt.Sprintf("cannot convert %T to int64", x))
}

// zero returns a new "zero" value of the specified type.
func zero(t types.Type) value {
	switch t := t.(type) {
	case *types.Basic:
		if t.Kind() == types.UntypedNil {
			panic("untyped nil has no zero value")
		}
		if t.Info()&types.IsUntyped != 0 {
			t = types.Default(t).(*types.Basic)
		}
		switch t.Kind() {
		case types.Bool:
			return false
		case types.Int:
			return int(0)
		case types.Int8:
			return int8(0)
		case types.Int16:
			return int16(0)
		case types.Int32:
			return int32(0)
		case types.Int64:
			return int64(0)
		case types.Uint:
			return uint(0)
		case types.Uint8:
			return uint8(0)
		case types.Uint16:
			return uint16(0)
		case types.Uint32:
			return uint32(0)
		case types.Uint64:
			return uint64(0)
		case types.Uintptr:
			return uintptr(0)
		case types.Float32:
			return float32(0)
		case types.Float64:
			return float64(0)
		case types.Complex64:
			return complex64(0)
		case types.Complex128:
			return complex128(0)
		case types.String:
			return ""
		case types.UnsafePointer:
			return unsafe.Pointer(nil)
		default:
			panic(fmt.Sprint("zero for unexpected type:", t))
		}
	case *types.Pointer:
		return (*value)(nil)
	case *types.Array:
		a := make(array, t.Len())
		for i := range a {
			a[i] = zero(t.Elem())
		}
		return a
	case *types.Named:
		return zero(t.Underlying())
	case *types.Alias:
		return zero(types.Unalias(t))
	case *types.Interface:
		return iface{} // nil type, methodset and value
	case *types.Slice:
		return []value(nil)
	case *types.Struct:
		s := make(structure, t.NumFields())
		for i := range s {
			s[i] = zero(t.Field(i).Type())
		}
		return s
	case *types.Tuple:
		if t.Len() == 1 {
			return zero(t.At(0).Type())
		}
		s := make(tuple, t.Len())
		for i := range s {
			s[i] = zero(t.At(i).Type())
		}
		return s
	case *types.Chan:
		return chan value(nil)
	case *types.Map:
		return (*omap)(nil)
	case *types.Signature:
		return (*ssa.Function)(nil)
	case *types.TypeParam:
		panic(fmt.Sprint("zero: type parameter ", t))
	}
	panic(fmt.Sprint("zero: unexpected ", t))
}

// checkIndex forks on "idx in [0,n)" and returns the concrete index.
func checkIndex(idx value, n int, what string) int {
	if s, ok := idx.(sym); ok {
		// compare in 64 bits so that n is representable whatever the index width
		t64 := Resize(s.t, 64, kindSigned(s.k))
		var inb *Term
		if kindSigned(s.k) {
			inb = And(Bin(OSle, BV(64, 0), t64), Bin(OSlt, t64, BV(64, uint64(n))))
		} else {
			inb = Bin(OUlt, t64, BV(64, uint64(n)))
		}
		if !ex.Branch(inb) {
			panic(goRuntimeError(fmt.Sprintf("runtime error: index out of range [symbolic] with length %d", n)))
		}
	}
	i := asInt64(idx)
	if i < 0 || i >= int64(n) {
		panic(goRuntimeError(fmt.Sprintf("runtime error: index out of range [%d] with length %d", i, n)))
	}
	return int(i)
}

// slice returns x[lo:hi:max].  Any of lo, hi and max may be nil.
func slice(x, lo, hi, max value) value {
	var Len, Cap int
	switch x := x.(type) {
	case string:
		Len = len(x)
		Cap = Len
	case sstr:
		Len = len(x.b)
		Cap = Len
	case []value:
		Len = len(x)
		Cap = cap(x)
	case *value: // *array
		if x == nil {
			panic(goRuntimeError("runtime error: invalid memory address or nil pointer dereference"))
		}
		a := (*x).(array)
		Len = len(a)
		Cap = cap(a)
	}

	l := int64(0)
	if lo != nil {
		l = asInt64(lo)
	}

	h := int64(Len)
	if hi != nil {
		h = asInt64(hi)
	}

	m := int64(Cap)
	if max != nil {
		m = asInt64(max)
	}
	if l < 0 || h < l || m < h || m > int64(Cap) {
		panic(goRuntimeError(fmt.Sprintf("runtime error: slice bounds out of range [%d:%d:%d] with capacity %d", l, h, m, Cap)))
	}

	switch x := x.(type) {
	case string:
		return x[l:h]
	case sstr:
		return mkStr(x.b[l:h])
	case []value:
		return x[l:h:m]
	case *value: // *array
		a := (*x).(array)
		return []value(a)[l:h:m]
	}
	panic(fmt.Sprintf("slice: unexpected X type: %T", x))
}

// lookup returns x[idx] where x is a map.
func lookup(instr *ssa.Lookup, x, idx value) value {
	switch x := x.(type) { // map or string
	case *omap:
		v, ok := x.lookup(idx)
		if !ok {
			v = zero(instr.X.Type().Underlying().(*types.Map).Elem())
		} else {
			v = copyVal(v)
		}
		if instr.CommaOk {
			v = tuple{v, ok}
		}
		return v
	}
	panic(fmt.Sprintf("unexpected x type in Lookup: %T", x))
}

func isStr(v value) bool {
	switch v.(type) {
	case string, sstr:
		return true
	}
	return false
}

// binop implements all arithmetic and logical binary operators for
// numeric datatypes and strings.
func binop(op token.Token, t types.Type, x, y value) value {
	switch op {
	case token.EQL:
		return mkVal(types.Bool, eqnil(t, x, y))
	case token.NEQ:
		return mkVal(types.Bool, Not(eqnil(t, x, y)))
	}
	// fast concrete integer path
	if xu, kx, ok := intInfo(x); ok {
		if yu, ky, ok := intInfo(y); ok {
			if kx == ky {
				if r, ok := concIntBinop(op, xu, yu, kx); ok {
					return r
				}
			}
			if r, ok := concIntBinop2(op, xu, kx, yu, ky); ok {
				return r
			}
		}
		return intBinop(op, x, y)
	}
	switch x.(type) {
	case sym:
		if x.(sym).k == types.Bool {
			return boolBinop(op, x, y)
		}
		return intBinop(op, x, y)
	case bool:
		return boolBinop(op, x, y)
	case string, sstr:
		return strBinop(op, x, y)
	case float32, float64, complex64, complex128:
		if isSym(y) {
			panic(pathEnd{peUnsupported, "symbolic float arithmetic"})
		}
		return floatBinop(op, x, y)
	}
	panic(fmt.Sprintf("invalid binary op: %T %s %T", x, op, y))
}

// eqnil returns the comparison x == y using the equivalence relation
// appropriate for type t.
func eqnil(t types.Type, x, y value) *Term {
	switch t.Underlying().(type) {
	case *types.Map, *types.Signature, *types.Slice:
		// Since these types don't support comparison,
		// one of the operands must be a literal nil.
		switch x := x.(type) {
		case *omap:
			return BoolT((x != nil) == (y.(*omap) != nil))
		case *ssa.Function:
			switch y := y.(type) {
			case *ssa.Function:
				return BoolT((x != nil) == (y != nil))
			case *closure:
				return BoolT(x != nil)
			}
		case *closure:
			switch y := y.(type) {
			case *ssa.Function:
				return BoolT(y != nil)
			}
			return FalseT
		case *hostFunc:
			return FalseT
		case []value:
			return BoolT((x != nil) == (y.([]value) != nil))
		}
		panic(fmt.Sprintf("eqnil(%s): illegal dynamic type: %T", t, x))
	}

	return eqTerm(t, x, y)
}

func unop(instr *ssa.UnOp, x value) value {
	switch instr.Op {
	case token.ARROW: // receive
		return chanRecv(instr, x)
	case token.SUB:
		switch x := x.(type) {
		case float32:
			return -x
		case float64:
			return -x
		case complex64:
			return -x
		case complex128:
			return -x
		}
		t, k := termOf(x)
		return mkVal(k, mk(ONeg, t.w, 0, t))
	case token.MUL:
		if sp, ok := x.(symElemPtr); ok {
			return sp.load()
		}
		p := x.(*value)
		if p == nil {
			panic(goRuntimeError("runtime error: invalid memory address or nil pointer dereference"))
		}
		return load(mustDeref(instr.X.Type()), p)
	case token.NOT:
		t, _ := termOf(x)
		return mkVal(types.Bool, Not(t))
	case token.XOR:
		t, k := termOf(x)
		return mkVal(k, mk(OBNot, t.w, 0, t))
	}
	panic(fmt.Sprintf("invalid unary op %s %T", instr.Op, x))
}

// typeAssert checks whether dynamic type of itf is instr.AssertedType.
// It returns the extracted value on success, and panics on failure,
// unless instr.CommaOk, in which case it always returns a "value,ok" tuple.
type assertKey struct {
	t  types.Type
	to types.Type
}

var assertCache = map[assertKey]string{}

func cachedCheckInterface(i *interpreter, to types.Type, idst *types.Interface, x iface) string {
	k := assertKey{x.t, to}
	if r, ok := assertCache[k]; ok {
		return r
	}
	r := checkInterface(i, idst, x)
	assertCache[k] = r
	return r
}

func typeAssert(i *interpreter, instr *ssa.TypeAssert, itf iface) value {
	var v value
	err := ""
	if itf.t == nil {
		err = fmt.Sprintf("interface conversion: interface is nil, not %s", instr.AssertedType)

	} else if idst, ok := instr.AssertedType.Underlying().(*types.Interface); ok {
		v = itf
		err = cachedCheckInterface(i, instr.AssertedType, idst, itf)

	} else if itf.t == instr.AssertedType || types.Identical(itf.t, instr.AssertedType) {
		v = itf.v // extract value

	} else {
		err = fmt.Sprintf("interface conversion: interface is %s, not %s", itf.t, instr.AssertedType)
	}

	if err != "" {
		if !instr.CommaOk {
			panic(goRuntimeError(err))
		}
		return tuple{zero(instr.AssertedType), false}
	}
	if instr.CommaOk {
		return tuple{v, true}
	}
	return v
}

// growCap reproduces runtime.growslice's capacity computation (Go 1.20+).
func growCap(oldCap, newLen int, elemSize int64) int {
	newcap := oldCap
	doublecap := newcap + newcap
	if newLen > doublecap {
		newcap = newLen
	} else {
		const threshold = 256
		if oldCap < threshold {
			newcap = doublecap
		} else {
			for 0 < newcap && newcap < newLen {
				newcap += (newcap + 3*threshold) >> 2
			}
			if newcap <= 0 {
				newcap = newLen
			}
		}
	}
	if elemSize <= 0 {
		return newcap
	}
	mem := roundupsize(uint64(newcap) * uint64(elemSize))
	return int(mem / uint64(elemSize))
}

var sizeClasses = [...]uint64{0, 8, 16, 24, 32, 48, 64, 80, 96, 112, 128, 144, 160, 176, 192, 208, 224, 240, 256, 288, 320, 352, 384, 416, 448, 480, 512, 576, 640, 704, 768, 896, 1024, 1152, 1280, 1408, 1536, 1792, 2048, 2304, 2688, 3072, 3200, 3456, 4096, 4864, 5376, 6144, 6528, 6784, 6912, 8192, 9472, 9728, 10240, 10880, 12288, 13568, 14336, 16384, 18432, 19072, 20480, 21760, 24576, 27264, 28672, 32768}

func roundupsize(size uint64) uint64 {
	if size <= 32768 {
		for _, c := range sizeClasses {
			if c >= size {
				return c
			}
		}
	}
	const page = 8192
	return (size + page - 1) / page * page
}

var stdSizes = types.SizesFor("gc", "amd64")

func elemSizeOf(sliceT types.Type) int64 {
	if sliceT == nil {
		return 16
	}
	s, ok := sliceT.Underlying().(*types.Slice)
	if !ok {
		return 16
	}
	return stdSizes.Sizeof(s.Elem())
}

// appendValues appends ys to xs, growing with the real runtime's capacity rule.
func appendValues(xs []value, ys []value, sliceT types.Type) []value {
	if len(ys) == 0 {
		return xs
	}
	n := len(xs) + len(ys)
	if n <= cap(xs) {
		return append(xs, ys...)
	}
	nc := growCap(cap(xs), n, elemSizeOf(sliceT))
	if nc < n {
		nc = n
	}
	out := make([]value, n, nc)
	for i := range xs {
		out[i] = copyVal(xs[i]) // the new backing array holds independent copies
	}
	copy(out[len(xs):], ys)
	// zero the spare capacity with proper zero values lazily: spare slots are
	// only observable through reslicing; fill them with the element zero.
	if s, ok := sliceT.Underlying().(*types.Slice); ok && nc > n {
		full := out[:nc]
		z := zero(s.Elem())
		for i := n; i < nc; i++ {
			full[i] = copyVal(z)
		}
	}
	return out
}

// callBuiltin interprets a call to builtin fn with arguments args,
// returning its result.
func callBuiltin(caller *frame, callpos token.Pos, fn *ssa.Builtin, args []value) value {
	switch fn.Name() {
	case "append":
		if len(args) == 1 {
			return args[0]
		}
		sig := fn.Type().(*types.Signature)
		sliceT := sig.Params().At(0).Type()
		if isStr(args[1]) {
			// append([]byte, ...string) []byte
			return appendValues(args[0].([]value), strBytes(args[1]), sliceT)
		}
		// append([]T, ...[]T) []T
		ys := args[1].([]value)
		cp := make([]value, len(ys))
		for i := range ys {
			cp[i] = copyVal(ys[i])
		}
		return appendValues(args[0].([]value), cp, sliceT)

	case "copy": // copy([]T, []T) int or copy([]byte, string) int
		src := args[1]
		if isStr(src) {
			src = strBytes(src)
		}
		dst := args[0].([]value)
		s := src.([]value)
		n := len(dst)
		if len(s) < n {
			n = len(s)
		}
		if n > 0 {
			tmp := make([]value, n)
			for i := 0; i < n; i++ {
				tmp[i] = copyVal(s[i])
			}
			copy(dst, tmp)
		}
		return n

	case "close": // close(chan T)
		close(args[0].(chan value))
		return nil

	case "delete": // delete(map[K]value, K)
		switch m := args[0].(type) {
		case *omap:
			m.delete(args[1])
		default:
			panic(fmt.Sprintf("illegal map type: %T", m))
		}
		return nil

	case "clear":
		switch m := args[0].(type) {
		case *omap:
			m.clear()
		case []value:
			if len(m) > 0 {
				et := fn.Type().(*types.Signature).Params().At(0).Type().Underlying().(*types.Slice).Elem()
				for i := range m {
					m[i] = zero(et)
				}
			}
		}
		return nil

	case "print", "println": // print(any, ...)
		ln := fn.Name() == "println"
		var buf bytes.Buffer
		for i, arg := range args {
			if i > 0 && ln {
				buf.WriteRune(' ')
			}
			buf.WriteString(toString(arg))
		}
		if ln {
			buf.WriteRune('\n')
		}
		if os.Getenv("GOSYM_PRINT") != "" {
			os.Stderr.Write(buf.Bytes())
		}
		return nil

	case "len":
		switch x := args[0].(type) {
		case string:
			return len(x)
		case sstr:
			return len(x.b)
		case array:
			return len(x)
		case *value:
			if x == nil {
				// len of nil *array is the array length: static
				at := fn.Type().(*types.Signature).Params().At(0).Type().Underlying().(*types.Pointer).Elem().Underlying().(*types.Array)
				return int(at.Len())
			}
			return len((*x).(array))
		case []value:
			return len(x)
		case *omap:
			return x.len()
		case chan value:
			return len(x)
		default:
			panic(fmt.Sprintf("len: illegal operand: %T", x))
		}

	case "cap":
		switch x := args[0].(type) {
		case array:
			return cap(x)
		case *value:
			return cap((*x).(array))
		case []value:
			return cap(x)
		case chan value:
			return cap(x)
		default:
			panic(fmt.Sprintf("cap: illegal operand: %T", x))
		}

	case "min":
		return foldLeft(min, args)
	case "max":
		return foldLeft(max, args)

	case "real":
		switch c := args[0].(type) {
		case complex64:
			return real(c)
		case complex128:
			return real(c)
		default:
			panic(fmt.Sprintf("real: illegal operand: %T", c))
		}

	case "imag":
		switch c := args[0].(type) {
		case complex64:
			return imag(c)
		case complex128:
			return imag(c)
		default:
			panic(fmt.Sprintf("imag: illegal operand: %T", c))
		}

	case "complex":
		switch f := args[0].(type) {
		case float32:
			return complex(f, args[1].(float32))
		case float64:
			return complex(f, args[1].(float64))
		default:
			panic(fmt.Sprintf("complex: illegal operand: %T", f))
		}

	case "panic":
		// ssa.Panic handles most cases; this is only for "go
		// panic" or "defer panic".
		panic(targetPanic{args[0]})

	case "recover":
		return doRecover(caller)

	case "ssa:wrapnilchk":
		recv := args[0]
		if recv.(*value) == nil {
			recvType := args[1]
			methodName := args[2]
			panic(goRuntimeError(fmt.Sprintf("value method (%s).%s called using nil *%s pointer",
				recvType, methodName, recvType)))
		}
		return recv

	case "ssa:deferstack":
		return &caller.defers
	}

	panic("unknown built-in: " + fn.Name())
}

func rangeIter(x value, t types.Type) iter {
	switch x := x.(type) {
	case *omap:
		return newMapIter(x)
	case string, sstr:
		return &stringIter{b: strBytes(x)}
	}
	panic(fmt.Sprintf("cannot range over %T", x))
}

// conv converts the value x of type t_src to type t_dst and returns
// the result.
// Possible cases are described with the ssa.Convert operator.
func conv(t_dst, t_src types.Type, x value) value {
	ut_src := t_src.Underlying()
	ut_dst := t_dst.Underlying()

	// Destination type is not an "untyped" type.
	if b, ok := ut_dst.(*types.Basic); ok && b.Info()&types.IsUntyped != 0 {
		panic("oops: conversion to 'untyped' type: " + b.String())
	}

	// Nor is it an interface type.
	if _, ok := ut_dst.(*types.Interface); ok {
		if _, ok := ut_src.(*types.Interface); ok {
			panic("oops: Convert should be ChangeInterface")
		} else {
			panic("oops: Convert should be MakeInterface")
		}
	}

	switch ut_src := ut_src.(type) {
	case *types.Pointer:
		switch ut_dst := ut_dst.(type) {
		case *types.Basic:
			// *value to unsafe.Pointer?
			if ut_dst.Kind() == types.UnsafePointer {
				return unsafePtr{p: x.(*value), t: t_src}
			}
		}

	case *types.Slice:
		// []byte or []rune -> string
		switch ut_src.Elem().Underlying().(*types.Basic).Kind() {
		case types.Byte:
			return mkStr(x.([]value))

		case types.Rune:
			xs := x.([]value)
			r := make([]rune, 0, len(xs))
			for i := range xs {
				r = append(r, cint(xs[i]).(rune))
			}
			return string(r)
		}

	case *types.Basic:
		// integer -> string?
		if ut_src.Info()&types.IsInteger != 0 {
			if ut_dst, ok := ut_dst.(*types.Basic); ok && ut_dst.Kind() == types.String {
				if s, ok := x.(sym); ok {
					// ASCII stays symbolic; otherwise concretise
					w := s.t.w
					var isASCII *Term
					if kindSigned(s.k) {
						isASCII = And(Bin(OSle, BV(w, 0), s.t), Bin(OSlt, s.t, BV(w, 0x80)))
					} else {
						isASCII = Bin(OUlt, s.t, BV(w, 0x80))
					}
					if ex.Branch(isASCII) {
						return mkStr([]value{mkVal(types.Uint8, Extract(s.t, 0, 8))})
					}
					if w == 8 && !kindSigned(s.k) {
						// 0x80..0xFF: two-byte UTF-8 encoding, kept symbolic
						hi := Bin(OBOr, BV(8, 0xC0), Bin(OLShr, s.t, BV(8, 6)))
						lo := Bin(OBOr, BV(8, 0x80), Bin(OBAnd, s.t, BV(8, 0x3F)))
						return mkStr([]value{mkVal(types.Uint8, hi), mkVal(types.Uint8, lo)})
					}
				}
				n := asInt64(x)
				if n < 0 || n > utf8.MaxRune {
					return "�"
				}
				return string(rune(n))
			}
		}

		// string -> []rune, []byte or string?
		if isStr(x) {
			switch ut_dst := ut_dst.(type) {
			case *types.Slice:
				switch ut_dst.Elem().Underlying().(*types.Basic).Kind() {
				case types.Rune:
					var res []value
					it := &stringIter{b: strBytes(x)}
					for {
						tp := it.next()
						if !tp[0].(bool) {
							break
						}
						res = append(res, tp[2])
					}
					if res == nil {
						res = []value{}
					}
					return res
				case types.Byte:
					b := strBytes(x)
					res := make([]value, len(b))
					copy(res, b)
					return res
				}
			case *types.Basic:
				if ut_dst.Kind() == types.String {
					return x
				}
			}
			break // fail: no other conversions for string
		}

		// unsafe.Pointer -> *value
		if ut_src.Kind() == types.UnsafePointer {
			if up, ok := x.(unsafePtr); ok {
				if pt, ok := ut_dst.(*types.Pointer); ok && up.t != nil {
					if types.Identical(mustDeref(up.t), pt.Elem()) {
						return up.p
					}
					// reinterpretation with identical underlying structure
					if types.Identical(mustDeref(up.t).Underlying(), pt.Elem().Underlying()) {
						return up.p
					}
				}
				if b, ok := ut_dst.(*types.Basic); ok && b.Kind() == types.Uintptr {
					return uintptr(unsafe.Pointer(up.p))
				}
				panic(pathEnd{peUnsupported, fmt.Sprintf("unsafe.Pointer reinterpretation %v -> %v", up.t, t_dst)})
			}
			if b, ok := ut_dst.(*types.Basic); ok && b.Kind() == types.Uintptr {
				return uintptr(0)
			}
			return zero(t_dst)
		}
		if bd, ok := ut_dst.(*types.Basic); ok && bd.Kind() == types.UnsafePointer {
			// uintptr -> unsafe.Pointer
			panic(pathEnd{peUnsupported, "uintptr to unsafe.Pointer"})
		}

		// Conversions between complex numeric types?
		if ut_src.Info()&types.IsComplex != 0 {
			switch v := x.(type) {
			case complex64:
				if ut_dst.(*types.Basic).Kind() == types.Complex64 {
					return v
				}
				return complex128(v)
			case complex128:
				if ut_dst.(*types.Basic).Kind() == types.Complex64 {
					return complex64(v)
				}
				return v
			}
			break
		}

		// Conversions between non-complex numeric types?
		if ut_src.Info()&types.IsNumeric != 0 {
			bd, ok := ut_dst.(*types.Basic)
			if !ok {
				break
			}
			kind := bd.Kind()
			switch v := x.(type) {
			case float32:
				return convFloat(kind, float64(v))
			case float64:
				return convFloat(kind, v)
			}
			switch kind {
			case types.Float32, types.Float64:
				if _, ok := x.(sym); ok {
					panic(pathEnd{peUnsupported, "symbolic integer to float"})
				}
				u, k, _ := intInfo(x)
				var f float64
				if kindSigned(k) {
					f = float64(sext64(u, kindBits(k)))
				} else {
					f = float64(u)
				}
				if kind == types.Float32 {
					return float32(f)
				}
				return f
			}
			return convInt(kind, x)
		}
		if ut_src.Info()&types.IsBoolean != 0 {
			return x
		}
	}

	panic(fmt.Sprintf("unsupported conversion: %s  -> %s, dynamic type %T", t_src, t_dst, x))
}

func convFloat(kind types.BasicKind, x float64) value {
	switch kind {
	case types.Int:
		return int(x)
	case types.Int8:
		return int8(x)
	case types.Int16:
		return int16(x)
	case types.Int32:
		return int32(x)
	case types.Int64:
		return int64(x)
	case types.Uint:
		return uint(x)
	case types.Uint8:
		return uint8(x)
	case types.Uint16:
		return uint16(x)
	case types.Uint32:
		return uint32(x)
	case types.Uint64:
		return uint64(x)
	case types.Uintptr:
		return uintptr(x)
	case types.Float32:
		return float32(x)
	case types.Float64:
		return float64(x)
	}
	panic(fmt.Sprintf("convFloat: bad kind %v", kind))
}

// unsafePtr is the interpreter's representation of an unsafe.Pointer derived
// from a typed pointer; it remembers the original pointer type so that
// round trips *T -> unsafe.Pointer -> *T work.
type unsafePtr struct {
	p *value
	t types.Type
}

// sliceToArrayPointer converts the value x of type slice to type t_dst
// a pointer to array and returns the result.
func sliceToArrayPointer(t_dst, t_src types.Type, x value) value {
	if _, ok := t_src.Underlying().(*types.Slice); ok {
		if ptr, ok := t_dst.Underlying().(*types.Pointer); ok {
			if arr, ok := ptr.Elem().Underlying().(*types.Array); ok {
				x := x.([]value)
				if arr.Len() > int64(len(x)) {
					panic(goRuntimeError("runtime error: cannot convert slice to array pointer: length mismatch"))
				}
				if x == nil {
					return zero(t_dst)
				}
				v := value(array(x[:arr.Len()]))
				return &v
			}
		}
	}

	panic(fmt.Sprintf("unsupported conversion: %s  -> %s, dynamic type %T", t_src, t_dst, x))
}

// checkInterface checks that the method set of x implements the
// interface itype.
// On success it returns "", on failure, an error message.
func checkInterface(i *interpreter, itype *types.Interface, x iface) string {
	if meth, _ := types.MissingMethod(x.t, itype, true); meth != nil {
		return fmt.Sprintf("interface conversion: %v is not %v: missing method %s",
			x.t, itype, meth.Name())
	}
	return "" // ok
}

func foldLeft(op func(value, value) value, args []value) value {
	x := args[0]
	for _, arg := range args[1:] {
		x = op(x, arg)
	}
	return x
}

func min(x, y value) value {
	if cbool(binop(token.LSS, nil, y, x)) {
		return y
	}
	return x
}

func max(x, y value) value {
	if cbool(binop(token.GTR, nil, y, x)) {
		return y
	}
	return x
}
