package main

// Symbolic scalars and strings, and the arithmetic shared by the concrete and
// the symbolic paths of the interpreter.

import (
	"fmt"
	"go/token"
	"go/types"
	"math"
)

// sym is a symbolic value of a basic integer kind or bool.
type sym struct {
	t *Term
	k types.BasicKind
}

// sstr is a string with at least one symbolic byte. Elements are uint8 or sym{Uint8}.
type sstr struct {
	b []value
}

func kindBits(k types.BasicKind) int {
	switch k {
	case types.Bool, types.UntypedBool:
		return 0
	case types.Int8, types.Uint8:
		return 8
	case types.Int16, types.Uint16:
		return 16
	case types.Int32, types.Uint32, types.UntypedRune:
		return 32
	case types.Int, types.Int64, types.Uint, types.Uint64, types.Uintptr, types.UntypedInt:
		return 64
	}
	panic(fmt.Sprintf("kindBits: not an integer kind: %v", k))
}

func kindSigned(k types.BasicKind) bool {
	switch k {
	case types.Int, types.Int8, types.Int16, types.Int32, types.Int64, types.UntypedInt, types.UntypedRune:
		return true
	}
	return false
}

// intInfo decomposes a concrete integer value.
func intInfo(v value) (uint64, types.BasicKind, bool) {
	switch x := v.(type) {
	case int:
		return uint64(x), types.Int, true
	case int8:
		return uint64(uint8(x)), types.Int8, true
	case int16:
		return uint64(uint16(x)), types.Int16, true
	case int32:
		return uint64(uint32(x)), types.Int32, true
	case int64:
		return uint64(x), types.Int64, true
	case uint:
		return uint64(x), types.Uint, true
	case uint8:
		return uint64(x), types.Uint8, true
	case uint16:
		return uint64(x), types.Uint16, true
	case uint32:
		return uint64(x), types.Uint32, true
	case uint64:
		return x, types.Uint64, true
	case uintptr:
		return uint64(x), types.Uintptr, true
	}
	return 0, 0, false
}

// mkInt builds the concrete value of kind k with bit pattern u.
func mkInt(k types.BasicKind, u uint64) value {
	switch k {
	case types.Int, types.UntypedInt:
		return int(u)
	case types.Int8:
		return int8(u)
	case types.Int16:
		return int16(u)
	case types.Int32, types.UntypedRune:
		return int32(u)
	case types.Int64:
		return int64(u)
	case types.Uint:
		return uint(u)
	case types.Uint8:
		return uint8(u)
	case types.Uint16:
		return uint16(u)
	case types.Uint32:
		return uint32(u)
	case types.Uint64:
		return u
	case types.Uintptr:
		return uintptr(u)
	case types.Bool, types.UntypedBool:
		return u != 0
	}
	panic(fmt.Sprintf("mkInt: bad kind %v", k))
}

// mkVal normalises a term to a value of kind k.
func mkVal(k types.BasicKind, t *Term) value {
	if t.IsConst() {
		return mkInt(k, t.val)
	}
	return sym{t, k}
}

// termOf returns the term and kind of an integer or boolean value.
func termOf(v value) (*Term, types.BasicKind) {
	switch x := v.(type) {
	case sym:
		return x.t, x.k
	case bool:
		return BoolT(x), types.Bool
	}
	if u, k, ok := intInfo(v); ok {
		return BV(kindBits(k), u), k
	}
	panic(pathEnd{peUnsupported, fmt.Sprintf("termOf: %T is not an integer/bool", v)})
}

func isSym(v value) bool {
	switch v.(type) {
	case sym, sstr:
		return true
	}
	return false
}

// cbool forces a boolean to a concrete value (forking if symbolic).
func cbool(v value) bool {
	switch x := v.(type) {
	case bool:
		return x
	case sym:
		return ex.Branch(x.t)
	}
	panic(fmt.Sprintf("cbool: %T", v))
}

// cint forces an integer to a concrete value of its kind (forking if symbolic).
func cint(v value) value {
	if s, ok := v.(sym); ok {
		u := ex.Concretize(s.t, "int")
		return mkInt(s.k, u)
	}
	return v
}

// ---- strings ----

func strBytes(v value) []value {
	switch x := v.(type) {
	case string:
		b := make([]value, len(x))
		for i := 0; i < len(x); i++ {
			b[i] = x[i]
		}
		return b
	case sstr:
		return x.b
	}
	panic(fmt.Sprintf("strBytes: %T", v))
}

func strLen(v value) int {
	switch x := v.(type) {
	case string:
		return len(x)
	case sstr:
		return len(x.b)
	}
	panic(fmt.Sprintf("strLen: %T", v))
}

// mkStr builds a string value from bytes (copying), normalising to a Go string when concrete.
func mkStr(b []value) value {
	conc := true
	for _, x := range b {
		if _, ok := x.(uint8); !ok {
			conc = false
			break
		}
	}
	if conc {
		bs := make([]byte, len(b))
		for i, x := range b {
			bs[i] = x.(uint8)
		}
		return string(bs)
	}
	cp := make([]value, len(b))
	copy(cp, b)
	return sstr{cp}
}

func byteTerm(v value) *Term {
	switch x := v.(type) {
	case uint8:
		return BV(8, uint64(x))
	case sym:
		return x.t
	}
	panic(fmt.Sprintf("byteTerm: %T", v))
}

// strEqTerm: equality of two strings as a term.
func strEqTerm(x, y value) *Term {
	if xs, ok := x.(string); ok {
		if ys, ok := y.(string); ok {
			return BoolT(xs == ys)
		}
	}
	if strLen(x) != strLen(y) {
		return FalseT
	}
	xb, yb := strBytes(x), strBytes(y)
	cs := make([]*Term, 0, len(xb))
	for i := range xb {
		c := Eq(byteTerm(xb[i]), byteTerm(yb[i]))
		if c == FalseT {
			return FalseT
		}
		cs = append(cs, c)
	}
	return And(cs...)
}

// strLtTerm: x < y lexicographically.
func strLtTerm(x, y value) *Term {
	xb, yb := strBytes(x), strBytes(y)
	n := len(xb)
	if len(yb) < n {
		n = len(yb)
	}
	// result = OR_i (prefix equal up to i && x[i] < y[i])  ||  (prefix equal n && len(x) < len(y))
	res := BoolT(len(xb) < len(yb))
	for i := n - 1; i >= 0; i-- {
		a, b := byteTerm(xb[i]), byteTerm(yb[i])
		res = Ite(Bin(OUlt, a, b), TrueT, Ite(Eq(a, b), res, FalseT))
	}
	return res
}

func strBinop(op token.Token, x, y value) value {
	switch op {
	case token.ADD:
		if xs, ok := x.(string); ok {
			if ys, ok := y.(string); ok {
				return xs + ys
			}
		}
		xb, yb := strBytes(x), strBytes(y)
		b := make([]value, 0, len(xb)+len(yb))
		b = append(b, xb...)
		b = append(b, yb...)
		return mkStr(b)
	case token.EQL:
		return mkVal(types.Bool, strEqTerm(x, y))
	case token.NEQ:
		return mkVal(types.Bool, Not(strEqTerm(x, y)))
	case token.LSS:
		return mkVal(types.Bool, strLtTerm(x, y))
	case token.GTR:
		return mkVal(types.Bool, strLtTerm(y, x))
	case token.LEQ:
		return mkVal(types.Bool, Not(strLtTerm(y, x)))
	case token.GEQ:
		return mkVal(types.Bool, Not(strLtTerm(x, y)))
	}
	panic(fmt.Sprintf("strBinop: bad op %s", op))
}

// ---- integer arithmetic ----

type goRuntimeError string

func (e goRuntimeError) Error() string { return string(e) }
func (e goRuntimeError) RuntimeError() {}

func intBinop(op token.Token, x, y value) value {
	tx, kx := termOf(x)
	ty, ky := termOf(y)
	w := kindBits(kx)
	signed := kindSigned(kx)
	switch op {
	case token.SHL, token.SHR:
		// shift count: any integer type; negative count panics
		if kindSigned(ky) {
			neg := Bin(OSlt, ty, BV(ty.w, 0))
			if ex.Branch(neg) {
				panic(goRuntimeError("runtime error: negative shift amount"))
			}
		}
		var cnt *Term
		var big *Term = FalseT
		if ty.w > w {
			big = Not(Bin(OUlt, ty, BV(ty.w, uint64(w))))
			cnt = Extract(ty, 0, w)
		} else {
			cnt = Zext(ty, w)
		}
		var r *Term
		if op == token.SHL {
			r = Ite(big, BV(w, 0), Bin(OShl, tx, cnt))
		} else if signed {
			r = Ite(big, Bin(OAShr, tx, BV(w, uint64(w-1))), Bin(OAShr, tx, cnt))
		} else {
			r = Ite(big, BV(w, 0), Bin(OLShr, tx, cnt))
		}
		return mkVal(kx, r)
	}
	if tx.w != ty.w {
		panic(fmt.Sprintf("intBinop: width mismatch %d vs %d for %s (%T,%T)", tx.w, ty.w, op, x, y))
	}
	var o Op
	switch op {
	case token.ADD:
		o = OAdd
	case token.SUB:
		o = OSub
	case token.MUL:
		o = OMul
	case token.QUO, token.REM:
		zero := Eq(ty, BV(w, 0))
		if ex.Branch(zero) {
			panic(goRuntimeError("runtime error: integer divide by zero"))
		}
		if op == token.QUO {
			if signed {
				o = OSDiv
			} else {
				o = OUDiv
			}
		} else {
			if signed {
				o = OSRem
			} else {
				o = OURem
			}
		}
	case token.AND:
		o = OBAnd
	case token.OR:
		o = OBOr
	case token.XOR:
		o = OBXor
	case token.AND_NOT:
		return mkVal(kx, Bin(OBAnd, tx, mk(OBNot, w, 0, ty)))
	case token.EQL:
		return mkVal(types.Bool, Eq(tx, ty))
	case token.NEQ:
		return mkVal(types.Bool, Not(Eq(tx, ty)))
	case token.LSS:
		if signed {
			return mkVal(types.Bool, Bin(OSlt, tx, ty))
		}
		return mkVal(types.Bool, Bin(OUlt, tx, ty))
	case token.LEQ:
		if signed {
			return mkVal(types.Bool, Bin(OSle, tx, ty))
		}
		return mkVal(types.Bool, Bin(OUle, tx, ty))
	case token.GTR:
		if signed {
			return mkVal(types.Bool, Bin(OSlt, ty, tx))
		}
		return mkVal(types.Bool, Bin(OUlt, ty, tx))
	case token.GEQ:
		if signed {
			return mkVal(types.Bool, Bin(OSle, ty, tx))
		}
		return mkVal(types.Bool, Bin(OUle, ty, tx))
	default:
		panic(fmt.Sprintf("intBinop: bad op %s", op))
	}
	return mkVal(kx, Bin(o, tx, ty))
}

// fast concrete path for same-kind integers
func concIntBinop(op token.Token, xu, yu uint64, k types.BasicKind) (value, bool) {
	w := kindBits(k)
	m := mask(w)
	signed := kindSigned(k)
	switch op {
	case token.ADD:
		return mkInt(k, (xu+yu)&m), true
	case token.SUB:
		return mkInt(k, (xu-yu)&m), true
	case token.MUL:
		return mkInt(k, (xu*yu)&m), true
	case token.AND:
		return mkInt(k, xu&yu), true
	case token.OR:
		return mkInt(k, xu|yu), true
	case token.XOR:
		return mkInt(k, xu^yu), true
	case token.AND_NOT:
		return mkInt(k, xu&^yu), true
	case token.EQL:
		return xu == yu, true
	case token.NEQ:
		return xu != yu, true
	}
	if signed {
		a, b := sext64(xu, w), sext64(yu, w)
		switch op {
		case token.LSS:
			return a < b, true
		case token.LEQ:
			return a <= b, true
		case token.GTR:
			return a > b, true
		case token.GEQ:
			return a >= b, true
		}
	} else {
		switch op {
		case token.LSS:
			return xu < yu, true
		case token.LEQ:
			return xu <= yu, true
		case token.GTR:
			return xu > yu, true
		case token.GEQ:
			return xu >= yu, true
		}
	}
	return nil, false
}

func boolBinop(op token.Token, x, y value) value {
	tx, _ := termOf(x)
	ty, _ := termOf(y)
	switch op {
	case token.EQL:
		return mkVal(types.Bool, Eq(tx, ty))
	case token.NEQ:
		return mkVal(types.Bool, Not(Eq(tx, ty)))
	case token.AND, token.LAND:
		return mkVal(types.Bool, And(tx, ty))
	case token.OR, token.LOR:
		return mkVal(types.Bool, Or(tx, ty))
	}
	panic(fmt.Sprintf("boolBinop: bad op %s", op))
}

func floatBinop(op token.Token, x, y value) value {
	switch a := x.(type) {
	case float32:
		b := y.(float32)
		switch op {
		case token.ADD:
			return a + b
		case token.SUB:
			return a - b
		case token.MUL:
			return a * b
		case token.QUO:
			return a / b
		case token.EQL:
			return a == b
		case token.NEQ:
			return a != b
		case token.LSS:
			return a < b
		case token.LEQ:
			return a <= b
		case token.GTR:
			return a > b
		case token.GEQ:
			return a >= b
		}
	case float64:
		b := y.(float64)
		switch op {
		case token.ADD:
			return a + b
		case token.SUB:
			return a - b
		case token.MUL:
			return a * b
		case token.QUO:
			return a / b
		case token.EQL:
			return a == b
		case token.NEQ:
			return a != b
		case token.LSS:
			return a < b
		case token.LEQ:
			return a <= b
		case token.GTR:
			return a > b
		case token.GEQ:
			return a >= b
		}
	case complex128:
		b := y.(complex128)
		switch op {
		case token.ADD:
			return a + b
		case token.SUB:
			return a - b
		case token.MUL:
			return a * b
		case token.QUO:
			return a / b
		case token.EQL:
			return a == b
		case token.NEQ:
			return a != b
		}
	case complex64:
		b := y.(complex64)
		switch op {
		case token.ADD:
			return a + b
		case token.SUB:
			return a - b
		case token.MUL:
			return a * b
		case token.QUO:
			return a / b
		case token.EQL:
			return a == b
		case token.NEQ:
			return a != b
		}
	}
	panic(fmt.Sprintf("floatBinop: bad op %s on %T", op, x))
}

var _ = math.Inf

// convInt converts an integer/bool-free value to integer kind dk.
func convInt(dk types.BasicKind, x value) value {
	if s, ok := x.(sym); ok {
		return mkVal(dk, Resize(s.t, kindBits(dk), kindSigned(s.k)))
	}
	u, k, ok := intInfo(x)
	if !ok {
		panic(fmt.Sprintf("convInt: %T", x))
	}
	w := kindBits(k)
	if kindSigned(k) {
		u = uint64(sext64(u, w))
	}
	return mkInt(dk, u&mask(kindBits(dk)))
}

// concIntBinop2: concrete shifts, division and remainder (operands may differ in kind for shifts).
func concIntBinop2(op token.Token, xu uint64, kx types.BasicKind, yu uint64, ky types.BasicKind) (value, bool) {
	w := kindBits(kx)
	m := mask(w)
	switch op {
	case token.SHL, token.SHR:
		if kindSigned(ky) && sext64(yu, kindBits(ky)) < 0 {
			return nil, false // negative shift count: let the slow path raise the panic
		}
		if op == token.SHL {
			if yu >= uint64(w) {
				return mkInt(kx, 0), true
			}
			return mkInt(kx, (xu<<yu)&m), true
		}
		if kindSigned(kx) {
			sx := sext64(xu, w)
			if yu >= uint64(w) {
				yu = uint64(w - 1)
			}
			return mkInt(kx, uint64(sx>>yu)&m), true
		}
		if yu >= uint64(w) {
			return mkInt(kx, 0), true
		}
		return mkInt(kx, xu>>yu), true
	case token.QUO, token.REM:
		if kx != ky || yu == 0 {
			return nil, false
		}
		if kindSigned(kx) {
			a, b := sext64(xu, w), sext64(yu, w)
			if b == -1 {
				if op == token.QUO {
					return mkInt(kx, uint64(-a)&m), true
				}
				return mkInt(kx, 0), true
			}
			if op == token.QUO {
				return mkInt(kx, uint64(a/b)&m), true
			}
			return mkInt(kx, uint64(a%b)&m), true
		}
		if op == token.QUO {
			return mkInt(kx, xu/yu), true
		}
		return mkInt(kx, xu%yu), true
	}
	return nil, false
}
