package main

// gosym: solver-based checking of Go functions by path-wise symbolic
// execution of their SSA form.  See /verif/DESIGN.md.

import (
	"crypto/sha1"
	"encoding/json"
	"flag"
	"fmt"
	"go/types"
	"os"
	"os/exec"
	"path/filepath"
	"runtime"
	"runtime/debug"
	"runtime/pprof"
	"sort"
	"strings"
	"sync"
	"time"

	"golang.org/x/tools/go/packages"
	"golang.org/x/tools/go/ssa"
	"golang.org/x/tools/go/ssa/ssautil"
)

const ndPkgRel = "pkg/zzverif/nd"

type harnessFile struct {
	PkgDir string // relative to repo, e.g. pkg/syslutil
	Src    string // absolute path of the harness source in /verif
}

func verifRoot() string {
	if v := os.Getenv("VERIF_ROOT"); v != "" {
		return v
	}
	return "/verif"
}

// harnessFilesFor lists the harness files of a property: /verif/harness/<ID>/<pkgdir with / -> __>.go
func harnessFilesFor(prop string) ([]harnessFile, error) {
	dir := filepath.Join(verifRoot(), "harness", prop)
	ents, err := os.ReadDir(dir)
	if err != nil {
		return nil, err
	}
	var out []harnessFile
	for _, e := range ents {
		n := e.Name()
		if !strings.HasSuffix(n, ".go") || strings.HasSuffix(n, "_test.go") {
			continue
		}
		base := strings.TrimSuffix(n, ".go")
		// optional "+suffix" allows several files per package
		if k := strings.Index(base, "+"); k >= 0 {
			base = base[:k]
		}
		out = append(out, harnessFile{PkgDir: strings.ReplaceAll(base, "__", "/"), Src: filepath.Join(dir, n)})
	}
	return out, nil
}

func overlayFor(repo, prop string, hfs []harnessFile) (map[string][]byte, map[string]string, error) {
	ov := map[string][]byte{}
	paths := map[string]string{}
	ndSrc := filepath.Join(verifRoot(), "nd", "nd.go")
	b, err := os.ReadFile(ndSrc)
	if err != nil {
		return nil, nil, err
	}
	ov[filepath.Join(repo, ndPkgRel, "nd.go")] = b
	paths[filepath.Join(repo, ndPkgRel, "nd.go")] = ndSrc
	for k, hf := range hfs {
		b, err := os.ReadFile(hf.Src)
		if err != nil {
			return nil, nil, err
		}
		dst := filepath.Join(repo, hf.PkgDir, fmt.Sprintf("zz_verif_%s_%d.go", prop, k))
		ov[dst] = b
		paths[dst] = hf.Src
	}
	return ov, paths, nil
}

type loaded struct {
	prog *ssa.Program
	pkgs map[string]*ssa.Package // by relative dir
	fset interface{}
}

func loadProgram(repo string, ov map[string][]byte, pkgDirs []string) (*ssa.Program, []*ssa.Package, error) {
	cfg := &packages.Config{
		Mode:       packages.LoadAllSyntax,
		Dir:        repo,
		Overlay:    ov,
		BuildFlags: []string{"-tags=verif"},
		Env:        append(os.Environ(), "GOFLAGS=-mod=mod", "GOPROXY=off", "GOSUMDB=off", "GOTOOLCHAIN=local", "CGO_ENABLED=0"),
	}
	var pats []string
	for _, d := range pkgDirs {
		pats = append(pats, "./"+d)
	}
	pkgs, err := packages.Load(cfg, pats...)
	if err != nil {
		return nil, nil, err
	}
	var errs []string
	packages.Visit(pkgs, nil, func(p *packages.Package) {
		for _, e := range p.Errors {
			errs = append(errs, e.Error())
		}
	})
	if len(errs) > 0 {
		if len(errs) > 10 {
			errs = errs[:10]
		}
		return nil, nil, fmt.Errorf("package load errors:\n  %s", strings.Join(errs, "\n  "))
	}
	prog, spkgs := ssautil.AllPackages(pkgs, ssa.InstantiateGenerics)
	// function bodies are built lazily, package by package (see ensureBuilt)
	return prog, spkgs, nil
}

type WorkerResult struct {
	Harness      string                 `json:"harness"`
	Pkg          string                 `json:"pkg"`
	Paths        int                    `json:"paths"`
	PathsByKind  map[string]int         `json:"paths_by_kind"`
	Exhausted    bool                   `json:"dfs_exhausted"`
	Killed       bool                   `json:"killed_by_signal,omitempty"`
	RuntimeErrs  map[string]int         `json:"target_runtime_errors,omitempty"`
	Asserts      map[string]*assertStat `json:"asserts"`
	Candidates   []Candidate            `json:"candidates"`
	Unsupported  map[string]int         `json:"unsupported,omitempty"`
	Inconclusive int                    `json:"inconclusive"`
	Forks        int                    `json:"forks"`
	ModelHits    int                    `json:"feasibility_by_cached_model"`
	Queries      int                    `json:"solver_queries"`
	QSat         int                    `json:"q_sat"`
	QUnsat       int                    `json:"q_unsat"`
	QUnknown     int                    `json:"q_unknown"`
	QErrors      int                    `json:"q_errors"`
	SolverS      float64                `json:"solver_s"`
	ModelS       float64                `json:"solver_get_value_s"`
	WallS        float64                `json:"wall_s"`
	LoadS        float64                `json:"load_s"`
	Funcs        map[string]int         `json:"functions_executed"`
	RepoFuncs    []string               `json:"repo_functions_encoded"`
	Intrinsics   map[string]int         `json:"intrinsics_and_stubs"`
	Samples      []map[string]uint64    `json:"samples"`
	InitNotes    []string               `json:"init_notes,omitempty"`
	Error        string                 `json:"error,omitempty"`
	MaxSteps     int64                  `json:"max_steps_per_path"`
	Solver       string                 `json:"solver"`
	Fix          string                 `json:"fix,omitempty"`
	Shard        string                 `json:"shard,omitempty"`
	FactHits     int                    `json:"decided_by_path_facts"`
}

var fixedVars map[string]int64
var shardW, shardN, shardDepth int

func main() {
	debug.SetMaxStack(2 << 30)
	debug.SetGCPercent(400)
	memLimit := int64(3 << 30)
	if v := os.Getenv("GOSYM_MEMLIMIT_MB"); v != "" {
		var mb int64
		if _, err := fmt.Sscanf(v, "%d", &mb); err == nil && mb >= 256 {
			memLimit = mb << 20
		}
	}
	debug.SetMemoryLimit(memLimit)
	if len(os.Args) < 2 {
		fmt.Fprintln(os.Stderr, "usage: gosym run|worker|list ...")
		os.Exit(2)
	}
	switch os.Args[1] {
	case "run":
		os.Exit(cmdRun(os.Args[2:]))
	case "worker":
		os.Exit(cmdWorker(os.Args[2:]))
	default:
		fmt.Fprintln(os.Stderr, "unknown command", os.Args[1])
		os.Exit(2)
	}
}

// ---------------------------------------------------------------- worker

func cmdWorker(args []string) int {
	fs := flag.NewFlagSet("worker", flag.ExitOnError)
	repo := fs.String("repo", "/repo", "repository root")
	prop := fs.String("prop", "", "property id")
	harness := fs.String("harness", "", "harness function name")
	out := fs.String("out", "", "result json")
	tier := fs.String("tier", "quick", "tier")
	solverKind := fs.String("solver", "z3-new", "z3 | z3-new | cvc5")
	qTimeout := fs.Int("qtimeout", 10000, "per-query timeout (ms)")
	trace := fs.Bool("trace", false, "trace instructions")
	smtlog := fs.String("smtlog", "", "write solver input here")
	maxPaths := fs.Int("maxpaths", 0, "stop after this many paths (0 = unlimited)")
	budget := fs.Duration("budget", 0, "wall budget for the exploration")
	fix := fs.String("fix", "", "pin nd range variables: name=value,name=value")
	shard := fs.String("shard", "", "w/W@d: explore only the depth-d subtrees whose DFS index is w mod W")
	fs.Parse(args)
	fixedVars = map[string]int64{}
	for _, kv := range strings.Split(*fix, ",") {
		if k, v, ok := strings.Cut(kv, "="); ok {
			var n int64
			fmt.Sscanf(v, "%d", &n)
			fixedVars[k] = n
		}
	}

	if *shard != "" {
		fmt.Sscanf(*shard, "%d/%d@%d", &shardW, &shardN, &shardDepth)
	}
	res := &WorkerResult{Harness: *harness, Solver: *solverKind, Fix: *fix, Shard: *shard}
	t0 := time.Now()
	outPath = *out
	err := runWorker(res, *repo, *prop, *harness, *tier, *solverKind, *qTimeout, *trace, *smtlog, *maxPaths, *budget)
	if err != nil {
		res.Error = err.Error()
	}
	res.WallS = time.Since(t0).Seconds()
	b, _ := json.MarshalIndent(res, "", " ")
	if *out != "" {
		os.WriteFile(*out, b, 0o644)
	} else {
		os.Stdout.Write(b)
	}
	if err != nil {
		fmt.Fprintln(os.Stderr, "worker error:", err)
		return 2
	}
	return 0
}

var tierName = "quick"
var outPath string

func runWorker(res *WorkerResult, repo, prop, harness, tier, solverKind string, qTimeout int, trace bool, smtlog string, maxPaths int, budget time.Duration) error {
	tierName = tier
	hfs, err := harnessFilesFor(prop)
	if err != nil {
		return err
	}
	ov, _, err := overlayFor(repo, prop, hfs)
	if err != nil {
		return err
	}
	dirs := map[string]bool{}
	var pkgDirs []string
	for _, hf := range hfs {
		if !dirs[hf.PkgDir] {
			dirs[hf.PkgDir] = true
			pkgDirs = append(pkgDirs, hf.PkgDir)
		}
	}
	t0 := time.Now()
	prog, spkgs, err := loadProgram(repo, ov, pkgDirs)
	if err != nil {
		return err
	}
	res.LoadS = time.Since(t0).Seconds()
	if pf := os.Getenv("GOSYM_CPUPROFILE"); pf != "" {
		f, _ := os.Create(pf)
		pprof.StartCPUProfile(f)
		defer pprof.StopCPUProfile()
	}
	if outPath != "" {
		os.WriteFile(outPath+".loaded", nil, 0o644)
	}
	runtime.GOMAXPROCS(2)
	var fn *ssa.Function
	for _, p := range spkgs {
		if p == nil {
			continue
		}
		if f := p.Func(harness); f != nil {
			fn = f
			res.Pkg = p.Pkg.Path()
		}
	}
	if fn == nil {
		return fmt.Errorf("harness %s not found", harness)
	}
	i := newInterpreter(prog)
	i.trace = trace
	solver, err := NewSolver(solverKind, qTimeout, smtlog)
	if err != nil {
		return err
	}
	defer solver.Close()
	e := newExplorer(solver, harness)
	if maxPaths > 0 {
		e.maxPaths = maxPaths
	}
	if budget > 0 {
		e.deadline = time.Now().Add(budget)
	}
	e.fixed = fixedVars
	e.shardW, e.shardN, e.shardDepth = shardW, shardN, shardDepth
	ex = e
	explore(i, fn, e)
	res.FactHits = e.FactHits
	res.Paths = e.Paths
	res.PathsByKind = e.PathsByKind
	res.Exhausted = !e.Truncated
	if len(runtimeErrorSites) > 0 {
		res.RuntimeErrs = runtimeErrorSites
	}
	res.Asserts = e.Asserts
	res.Candidates = e.Candidates
	res.Unsupported = e.Unsupported
	res.Inconclusive = e.Inconclusive
	res.Forks = e.Forks
	res.ModelHits = e.ModelHits
	res.Queries = solver.Queries
	res.QSat, res.QUnsat, res.QUnknown, res.QErrors = solver.NSat, solver.NUnsat, solver.NUnknown, solver.NErrors
	res.SolverS = solver.SolveTime.Seconds() + solver.ModelTime.Seconds()
	res.ModelS = solver.ModelTime.Seconds()
	res.Funcs = map[string]int{}
	repoMod := "github.com/anz-bank/sysl/"
	for name, n := range e.FuncsHit {
		if strings.Contains(name, repoMod) && !strings.Contains(name, "zzverif") && !strings.Contains(name, "Harness_") {
			res.RepoFuncs = append(res.RepoFuncs, name)
			res.Funcs[name] = n
		}
	}
	sort.Strings(res.RepoFuncs)
	other := 0
	for name, n := range e.FuncsHit {
		if !strings.Contains(name, repoMod) {
			other += n
			_ = name
		}
	}
	res.Funcs["(std and dependency functions, calls)"] = other
	res.Intrinsics = e.IntrinsicHit
	res.Samples = e.samples
	res.InitNotes = i.initNotes
	if len(res.InitNotes) > 12 {
		res.InitNotes = append(res.InitNotes[:12:12], fmt.Sprintf("… %d more", len(i.initNotes)-12))
	}
	res.MaxSteps = e.maxSteps
	return nil
}

func newInterpreter(prog *ssa.Program) *interpreter {
	i := &interpreter{
		prog:      prog,
		globals:   map[*ssa.Global]*value{},
		initState: map[*ssa.Package]int{},
		stubs:     map[string]*ssa.Function{},
		poisoned:  map[*ssa.Global]string{},
	}
	rt := prog.ImportedPackage("runtime")
	if rt == nil {
		panic("program lacks runtime package")
	}
	i.runtimeErrorString = rt.Type("errorString").Object().Type()
	if rp := prog.ImportedPackage("reflect"); rp != nil {
		i.rtypePtr = types.NewPointer(rp.Type("rtype").Object().Type())
	}
	curInterp = i
	return i
}

// explore runs the DFS over all feasible paths of fn.
func explore(i *interpreter, fn *ssa.Function, e *Explorer) {
	for {
		e.curPath = e.Paths
		e.beginRun()
		sched.reset()
		i.stubs = map[string]*ssa.Function{}
		i.mapOrderAny = 0
		i.mapOrderEpoch = 0
		envOverride = map[string]string{}
		ncand := len(e.Candidates)
		kind, msg := runOnce(i, fn, e)
		if kind == peSkipped {
			if !e.next() {
				return
			}
			continue
		}
		if e.curN > 1 {
			// the path ended while several workers still share it: it belongs to member 0
			if e.curW != 0 {
				e.Candidates = e.Candidates[:ncand]
				if !e.next() {
					return
				}
				continue
			}
		}
		e.Paths++
		e.PathsByKind[peNames[kind]]++
		switch kind {
		case peUnsupported:
			e.Unsupported[msg]++
		case peInconclusive:
		case peDone:
			if len(e.samples) < 5 {
				if m, ok := e.currentModel(); ok && len(m) > 0 {
					e.samples = append(e.samples, m)
				}
			}
		}
		if os.Getenv("GOSYM_PROGRESS") != "" && e.Paths%200 == 0 {
			fmt.Fprintf(os.Stderr, "[%s] paths=%d queries=%d cands=%d trail=%d\n", e.harness, e.Paths, e.solver.Queries, len(e.Candidates), len(e.trail))
		}
		if e.Paths >= e.maxPaths || (!e.deadline.IsZero() && time.Now().After(e.deadline)) {
			e.Truncated = true
			return
		}
		if !e.next() {
			return
		}
	}
}

func runOnce(i *interpreter, fn *ssa.Function, e *Explorer) (kind pathEndKind, msg string) {
	var lastFrame *frame
	defer func() {
		r := recover()
		if r == nil {
			return
		}
		switch p := r.(type) {
		case pathEnd:
			kind, msg = p.kind, p.msg
			if p.kind == peBudget {
				e.recordEscaped("budget", p.msg, nil)
			}
		case exitPanic:
			kind, msg = peExit, fmt.Sprintf("exit(%d) via %s", p.code, p.why)
			e.recordEscaped("exit", msg, nil)
		case deadlockPanic:
			kind, msg = pePanic, "deadlock: "+p.msg
			e.recordEscaped("panic", msg, nil)
		case *runtime.TypeAssertionError:
			kind, msg = peUnsupported, "engine: "+p.Error()+" @ "+hostWhere()
		case targetPanic, goRuntimeError:
			kind, msg = pePanic, panicString(i, lastFrame, r)
			e.recordEscaped("panic", msg, nil)
		case runtime.Error:
			kind, msg = peUnsupported, "engine/host runtime error: "+p.Error()+" @ "+hostWhere()
		case string:
			kind, msg = peUnsupported, "engine: "+p
		default:
			kind, msg = peUnsupported, fmt.Sprintf("engine: unexpected panic %T: %v", r, r)
		}
	}()
	lastFrame = &frame{i: i, fn: fn}
	call(i, lastFrame, fn.Pos(), fn, nil)
	return peDone, ""
}

func hostWhere() string {
	buf := make([]byte, 1<<14)
	n := runtime.Stack(buf, false)
	lines := strings.Split(string(buf[:n]), "\n")
	var out []string
	for _, l := range lines {
		l = strings.TrimSpace(l)
		if strings.HasPrefix(l, "/verif/engine/") || strings.Contains(l, "/engine/") && strings.Contains(l, ".go:") {
			out = append(out, filepath.Base(strings.Fields(l)[0]))
			if len(out) >= 6 {
				break
			}
		}
	}
	return strings.Join(out, " < ")
}

// ---------------------------------------------------------------- run

type KnownFinding struct {
	Status   string `json:"status"` // "known" or "fixed"
	Property string `json:"property"`
	Harness  string `json:"harness"`
	Label    string `json:"label"`
	Commit   string `json:"commit,omitempty"`
	What     string `json:"what"`
}

func loadKnown() []KnownFinding {
	b, err := os.ReadFile(filepath.Join(verifRoot(), "known_findings.jsonl"))
	if err != nil {
		return nil
	}
	var out []KnownFinding
	for _, line := range strings.Split(string(b), "\n") {
		line = strings.TrimSpace(line)
		if line == "" || strings.HasPrefix(line, "#") {
			continue
		}
		var k KnownFinding
		if json.Unmarshal([]byte(line), &k) == nil {
			out = append(out, k)
		}
	}
	return out
}

type harnessSpec struct {
	name  string
	pkg   string // rel dir
	fix   string
	shard string
}

// expandSplits parses "//verif:split a=0..3 b=0..2" into all combinations "a=0,b=0", ...
func expandSplits(spec string) []string {
	out := []string{""}
	for _, f := range strings.Fields(spec) {
		k, rng, ok := strings.Cut(f, "=")
		if !ok {
			continue
		}
		var lo, hi int
		if _, err := fmt.Sscanf(rng, "%d..%d", &lo, &hi); err != nil {
			continue
		}
		var next []string
		for _, pre := range out {
			for v := lo; v <= hi; v++ {
				s := fmt.Sprintf("%s=%d", k, v)
				if pre != "" {
					s = pre + "," + s
				}
				next = append(next, s)
			}
		}
		out = next
	}
	return out
}

func listHarnesses(repo, prop, tier string, hfs []harnessFile) ([]harnessSpec, error) {
	// cheap textual scan: "func Harness_<prop>_"
	var out []harnessSpec
	for _, hf := range hfs {
		b, err := os.ReadFile(hf.Src)
		if err != nil {
			return nil, err
		}
		lines := strings.Split(string(b), "\n")
		for li, line := range lines {
			if strings.HasPrefix(line, "func Harness_"+prop+"_") {
				name := line[len("func "):]
				if k := strings.Index(name, "("); k > 0 {
					fixes := []string{""}
					for j := li - 1; j >= 0 && strings.HasPrefix(lines[j], "//"); j-- {
						if strings.HasPrefix(lines[j], "//verif:split-"+tier+" ") {
							fixes = expandSplits(strings.TrimPrefix(lines[j], "//verif:split-"+tier+" "))
						}
					}
					shardW, shardD := 0, 0
					for j := li - 1; j >= 0 && strings.HasPrefix(lines[j], "//"); j-- {
						if strings.HasPrefix(lines[j], "//verif:shard-"+tier+" ") {
							fmt.Sscanf(strings.TrimPrefix(lines[j], "//verif:shard-"+tier+" "), "%d %d", &shardW, &shardD)
						}
					}
					for _, fx := range fixes {
						if shardW > 1 {
							for w := 0; w < shardW; w++ {
								out = append(out, harnessSpec{name[:k], hf.PkgDir, fx, fmt.Sprintf("%d/%d@%d", w, shardW, shardD)})
							}
						} else {
							out = append(out, harnessSpec{name[:k], hf.PkgDir, fx, ""})
						}
					}
				}
			}
		}
	}
	return out, nil
}

// tier filter: a harness line may be preceded by "//verif:thorough" to run only in thorough tier.
func thoroughOnly(hfs []harnessFile) map[string]bool {
	m := map[string]bool{}
	for _, hf := range hfs {
		b, _ := os.ReadFile(hf.Src)
		lines := strings.Split(string(b), "\n")
		for i, line := range lines {
			if strings.HasPrefix(line, "func Harness_") {
				th := false
				for j := i - 1; j >= 0 && strings.HasPrefix(lines[j], "//"); j-- {
					if strings.Contains(lines[j], "verif:thorough") {
						th = true
					}
				}
				name := line[len("func "):]
				if k := strings.Index(name, "("); k > 0 && th {
					m[name[:k]] = true
				}
			}
		}
	}
	return m
}

func cmdRun(args []string) int {
	fs := flag.NewFlagSet("run", flag.ExitOnError)
	repo := fs.String("repo", "/repo", "repository root")
	prop := fs.String("prop", "", "property id")
	tier := fs.String("tier", "quick", "quick | thorough")
	only := fs.String("only", "", "run only harnesses whose name contains this")
	jobs := fs.Int("j", 0, "parallel workers")
	solverKind := fs.String("solver", "z3-new", "solver")
	noReplay := fs.Bool("noreplay", false, "skip native replay (candidates are then not reported as violations)")
	keep := fs.Bool("keep", false, "keep worker outputs")
	budget := fs.Duration("budget", 0, "wall budget for the whole exploration, shared fairly among the workers (default 12m quick, 25m thorough)")
	fs.Parse(args)
	if *prop == "" {
		fmt.Fprintln(os.Stderr, "run: -prop required")
		return 2
	}
	if *jobs <= 0 {
		*jobs = runtime.NumCPU()
	}
	t0 := time.Now()
	hfs, err := harnessFilesFor(*prop)
	if err != nil {
		fmt.Fprintln(os.Stderr, "error:", err)
		return 2
	}
	hs, err := listHarnesses(*repo, *prop, *tier, hfs)
	if err != nil || len(hs) == 0 {
		fmt.Fprintln(os.Stderr, "error: no harnesses for", *prop, err)
		return 2
	}
	tonly := thoroughOnly(hfs)
	var sel []harnessSpec
	for _, h := range hs {
		if *only != "" && !strings.Contains(h.name, *only) {
			continue
		}
		if *tier == "quick" && tonly[h.name] {
			continue
		}
		sel = append(sel, h)
	}
	tmp, _ := os.MkdirTemp("", "gosym-"+*prop+"-")
	if !*keep {
		defer os.RemoveAll(tmp)
	}
	self, _ := os.Executable()
	qt := 10000
	if *tier == "thorough" {
		qt = 60000
	}
	if *budget == 0 {
		*budget = 12 * time.Minute
		if *tier == "thorough" {
			*budget = 25 * time.Minute
		}
	}
	// every worker gets a fair share of what is left of the overall budget when it starts:
	// remaining time x parallel slots / workers not yet started (at least 30 s)
	overall := time.Now().Add(*budget)
	var shareMu sync.Mutex
	notStarted := len(sel)
	share := func() time.Duration {
		shareMu.Lock()
		defer shareMu.Unlock()
		left := time.Until(overall)
		d := left
		if notStarted > *jobs {
			d = left * time.Duration(*jobs) / time.Duration(notStarted)
		}
		notStarted--
		floor := 30 * time.Second
		if *tier != "thorough" {
			floor = 5 * time.Minute // quick bounds are chosen so that every worker ends well within this
		}
		if d < floor {
			d = floor
		}
		return d
	}
	results := make([]*WorkerResult, len(sel))
	loadSem := make(chan struct{}, 5)
	var loadMu sync.Mutex
	var wg sync.WaitGroup
	sem := make(chan struct{}, *jobs)
	// memory: the workers share what is available now (Go heap limit per worker, soft)
	memMB := int64(3072)
	if avail := memAvailableMB(); avail > 0 {
		per := avail * 7 / 10 / int64(*jobs)
		if per < memMB {
			memMB = per
		}
		if memMB < 1024 {
			memMB = 1024
		}
	}
	runOne := func(k int, h harnessSpec, budget time.Duration) {
		{
			outp := filepath.Join(tmp, fmt.Sprintf("%s-%d.json", h.name, k))
			os.Remove(outp)
			os.Remove(outp + ".loaded")
			cmd := exec.Command(self, "worker", "-repo", *repo, "-prop", *prop, "-harness", h.name, "-out", outp,
				"-tier", *tier, "-solver", *solverKind, "-qtimeout", fmt.Sprint(qt), "-fix", h.fix, "-budget", budget.String(), "-shard", h.shard)
			cmd.Env = append(os.Environ(), "GOFLAGS=-mod=mod", "GOPROXY=off", "GOSUMDB=off", "GOTOOLCHAIN=local",
				fmt.Sprintf("GOSYM_MEMLIMIT_MB=%d", memMB))
			var errb strings.Builder
			cmd.Stderr = &errb
			cmd.Stdout = &errb
			loadSem <- struct{}{}
			released := false
			release := func() {
				if !released {
					released = true
					<-loadSem
				}
			}
			err := cmd.Start()
			if err == nil {
				go func() {
					// the worker touches <out>.loaded when its program is loaded
					for t := 0; t < 3000; t++ {
						if _, e := os.Stat(outp + ".loaded"); e == nil {
							break
						}
						if _, e := os.Stat(outp); e == nil {
							break
						}
						time.Sleep(100 * time.Millisecond)
					}
					loadMu.Lock()
					release()
					loadMu.Unlock()
				}()
				err = cmd.Wait()
			}
			loadMu.Lock()
			release()
			loadMu.Unlock()
			r := &WorkerResult{Harness: h.name}
			if b, rerr := os.ReadFile(outp); rerr == nil {
				json.Unmarshal(b, r)
			} else if err != nil {
				r.Error = "worker failed: " + err.Error()
			}
			if err != nil && r.Error == "" {
				r.Error = "worker failed: " + err.Error()
			}
			if r.Error != "" {
				tail := errb.String()
				if len(tail) > 3000 {
					tail = tail[len(tail)-3000:]
				}
				r.Error += "\n" + tail
			}
			results[k] = r
		}
	}
	for k, h := range sel {
		wg.Add(1)
		go func(k int, h harnessSpec) {
			defer wg.Done()
			sem <- struct{}{}
			defer func() { <-sem }()
			runOne(k, h, share())
		}(k, h)
	}
	wg.Wait()
	// a worker killed from outside (the kernel's OOM killer under memory pressure) is run
	// again on its own; if that is killed too its part of the bound is reported as not
	// explored instead of failing the check
	for k, h := range sel {
		if r := results[k]; r != nil && strings.Contains(r.Error, "signal: killed") {
			fmt.Fprintf(os.Stderr, "NOTE: %s [%s]: worker was killed (memory pressure?), running it again alone\n", h.name, h.shard)
			d := time.Until(overall)
			if d < 3*time.Minute {
				d = 3 * time.Minute
			}
			runOne(k, h, d)
			if r2 := results[k]; r2 != nil && strings.Contains(r2.Error, "signal: killed") {
				fmt.Fprintf(os.Stderr, "NOTE: %s [%s]: killed again; its share of the bound was not explored\n", h.name, h.shard)
				results[k] = &WorkerResult{Harness: h.name, Exhausted: false, Killed: true}
			}
		}
	}

	return report(*repo, *prop, *tier, results, hfs, sel, time.Since(t0), *noReplay)
}

// ---------------------------------------------------------------- replay

func replayDir() string { return filepath.Join(verifRoot(), "replays") }

type ReplayFile struct {
	Property string            `json:"property"`
	Harness  string            `json:"harness"`
	Label    string            `json:"label"`
	Kind     string            `json:"kind"`
	Msg      string            `json:"msg,omitempty"`
	Values   map[string]uint64 `json:"values"`
	Tier     string            `json:"tier"`
	Trace    []string          `json:"trace,omitempty"`
}

func writeReplay(prop, tier string, c Candidate) string {
	os.MkdirAll(replayDir(), 0o755)
	rf := ReplayFile{Property: prop, Harness: c.Harness, Label: c.Label, Kind: c.Kind, Msg: c.Msg, Values: c.Values, Tier: tier, Trace: c.Trace}
	b, _ := json.MarshalIndent(rf, "", " ")
	h := sha1.Sum(b)
	p := filepath.Join(replayDir(), fmt.Sprintf("%s-%s-%s-%x.json", prop, c.Harness, sanitize(c.Label), h[:4]))
	os.WriteFile(p, b, 0o644)
	return p
}

// nativeReplay re-runs the harness natively with the recorded values.
// It reports whether the failure reproduced, and the output.
func nativeReplay(repo, prop string, hfs []harnessFile, pkgDir, harness, replayPath, kind, label string) (bool, string) {
	tmp, _ := os.MkdirTemp("", "gosym-replay-")
	defer os.RemoveAll(tmp)
	_, paths, err := overlayFor(repo, prop, hfs)
	if err != nil {
		return false, err.Error()
	}
	pkgName := ""
	for _, hf := range hfs {
		if hf.PkgDir == pkgDir {
			b, _ := os.ReadFile(hf.Src)
			for _, line := range strings.Split(string(b), "\n") {
				if strings.HasPrefix(line, "package ") {
					pkgName = strings.TrimSpace(strings.TrimPrefix(line, "package "))
					break
				}
			}
		}
	}
	testSrc := fmt.Sprintf(`package %s

import "testing"

func TestVerifReplay(t *testing.T) {
	%s()
}
`, pkgName, harness)
	testFile := filepath.Join(tmp, "replay_test.go")
	os.WriteFile(testFile, []byte(testSrc), 0o644)
	paths[filepath.Join(repo, pkgDir, "zz_verif_replay_test.go")] = testFile
	ovj, _ := json.Marshal(map[string]interface{}{"Replace": paths})
	ovFile := filepath.Join(tmp, "overlay.json")
	os.WriteFile(ovFile, ovj, 0o644)
	cmd := exec.Command("timeout", "300", "go", "test", "-tags", "verif", "-vet=off", "-count=1", "-overlay", ovFile, "-run", "^TestVerifReplay$", "./"+pkgDir)
	cmd.Dir = repo
	cmd.Env = append(os.Environ(), "GOFLAGS=-mod=mod", "GOPROXY=off", "GOSUMDB=off", "GOTOOLCHAIN=local", "VERIF_REPLAY="+replayPath)
	outb, err := cmd.CombinedOutput()
	out := string(outb)
	if err == nil {
		return false, out
	}
	if kind == "assert" {
		// the same assertion must fail natively
		if strings.Contains(out, "VERIF-ASSERT-FAILED "+label+"\n") {
			return true, out
		}
		if strings.Contains(out, "fatal error: stack overflow") || strings.Contains(out, "goroutine stack exceeds") {
			// the real code died unrecoverably before the harness could report: a crash
			// that no recover() contains confirms a failed no-crash assertion
			return true, out
		}
		// a panic on a goroutine the harness does not control (the compiler's own import /
		// parse goroutines) kills the process before nd.Recovered can report it: for a
		// no-crash assertion that is the crash itself, provided the trace runs through the
		// code under test and not through the harness
		if strings.Contains(label, "no-crash") && strings.Contains(out, "\npanic: ") && strings.Contains(out, "github.com/anz-bank/sysl/") &&
			!strings.Contains(out, "VERIF-ASSERT-FAILED") {
			return true, out
		}
		return false, "native run failed differently (expected assertion " + label + ")\n" + out
	}
	if strings.Contains(out, "VERIF-ASSERT-FAILED") || strings.Contains(out, "panic:") || strings.Contains(out, "fatal error:") || strings.Contains(out, "VERIF-EXIT") {
		return true, out
	}
	// build failure or timeout
	if strings.Contains(out, "[build failed]") || strings.Contains(out, "[setup failed]") {
		return false, "BUILD FAILED\n" + out
	}
	return true, out // non-zero exit for another reason (e.g. os.Exit inside the code under test)
}

// nativeWitness runs the given harnesses natively, each with its witness replay file, in one
// test binary. It returns the index of the first harness whose native run failed (-1: all passed).
func nativeWitness(repo, prop string, hfs []harnessFile, pkgDir string, harnesses, files []string) (int, string) {
	tmp, _ := os.MkdirTemp("", "gosym-witness-")
	defer os.RemoveAll(tmp)
	_, paths, err := overlayFor(repo, prop, hfs)
	if err != nil {
		return -1, err.Error()
	}
	pkgName := ""
	for _, hf := range hfs {
		if hf.PkgDir == pkgDir {
			b, _ := os.ReadFile(hf.Src)
			for _, line := range strings.Split(string(b), "\n") {
				if strings.HasPrefix(line, "package ") {
					pkgName = strings.TrimSpace(strings.TrimPrefix(line, "package "))
					break
				}
			}
		}
	}
	var sb strings.Builder
	fmt.Fprintf(&sb, "package %s\n\nimport (\n\t\"fmt\"\n\t\"testing\"\n\n\t\"github.com/anz-bank/sysl/pkg/zzverif/nd\"\n)\n\n", pkgName)
	sb.WriteString("func TestVerifWitness(t *testing.T) {\n")
	for i, h := range harnesses {
		fmt.Fprintf(&sb, "\tfmt.Println(\"VERIF-WITNESS-BEGIN %d\")\n\tnd.Load(%q)\n\t%s()\n", i, files[i], h)
	}
	sb.WriteString("\tfmt.Println(\"VERIF-WITNESS-ALL-DONE\")\n}\n")
	testFile := filepath.Join(tmp, "witness_test.go")
	os.WriteFile(testFile, []byte(sb.String()), 0o644)
	paths[filepath.Join(repo, pkgDir, "zz_verif_witness_test.go")] = testFile
	ovj, _ := json.Marshal(map[string]interface{}{"Replace": paths})
	ovFile := filepath.Join(tmp, "overlay.json")
	os.WriteFile(ovFile, ovj, 0o644)
	cmd := exec.Command("timeout", "600", "go", "test", "-tags", "verif", "-vet=off", "-count=1", "-v", "-overlay", ovFile, "-run", "^TestVerifWitness$", "./"+pkgDir)
	cmd.Dir = repo
	cmd.Env = append(os.Environ(), "GOFLAGS=-mod=mod", "GOPROXY=off", "GOSUMDB=off", "GOTOOLCHAIN=local")
	outb, _ := cmd.CombinedOutput()
	out := string(outb)
	if strings.Contains(out, "VERIF-WITNESS-ALL-DONE") {
		return -1, out
	}
	if strings.Contains(out, "[build failed]") || strings.Contains(out, "[setup failed]") {
		fmt.Fprintln(os.Stderr, "MACHINERY: witness test build failed for", pkgDir, "\n", tailStr(out, 1500))
		return -1, out
	}
	last := -1
	for i := range harnesses {
		if strings.Contains(out, fmt.Sprintf("VERIF-WITNESS-BEGIN %d\n", i)) {
			last = i
		}
	}
	if last < 0 {
		fmt.Fprintln(os.Stderr, "MACHINERY: witness test did not start for", pkgDir, "\n", tailStr(out, 1500))
		return -1, out
	}
	if strings.Contains(out, "VERIF-ASSUME-FALSE") {
		// the witness left the harness's assumed region natively: not a failure of the property
		fmt.Fprintln(os.Stderr, "note: witness replay diverged at an assumption in", harnesses[last])
		return -1, out
	}
	return last, out
}

func tailStr(s string, n int) string {
	if len(s) > n {
		return s[len(s)-n:]
	}
	return s
}

// ---------------------------------------------------------------- report

func report(repo, prop, tier string, results []*WorkerResult, hfs []harnessFile, sel []harnessSpec, wall time.Duration, noReplay bool) int {
	known := loadKnown()
	exit := 0
	type obs struct {
		c      Candidate
		pkgDir string
	}
	violations := 0
	var lines []string
	var spurious []map[string]interface{}
	var knownHit []string
	var machinery []string

	totalPaths, totalQueries, totalForks, reachedAsserts := 0, 0, 0, 0
	var solverS float64
	funcs := map[string]bool{}
	intr := map[string]int{}
	var samples []interface{}
	harnessSummaries := []map[string]interface{}{}
	inconclusive, unsupported := 0, 0
	exhausted := true
	proved, concrete := 0, 0
	reachByHarness := map[string]int{}
	decided := map[string]bool{}
	unsupByHarness := map[string]string{}
	vacReported := map[string]bool{}
	cutShort := map[string]bool{} // harnesses with a shard stopped by the budget or a solver timeout
	for k, r := range results {
		h := sel[k]
		if r.Error != "" {
			machinery = append(machinery, fmt.Sprintf("%s: %s", h.name, r.Error))
			continue
		}
		totalPaths += r.Paths
		totalQueries += r.Queries
		totalForks += r.Forks
		solverS += r.SolverS
		inconclusive += r.Inconclusive
		for _, n := range r.Unsupported {
			unsupported += n
		}
		if !r.Exhausted {
			exhausted = false
		}
		for _, f := range r.RepoFuncs {
			funcs[f] = true
		}
		for n, c := range r.Intrinsics {
			intr[n] += c
		}
		nreach := 0
		for _, st := range r.Asserts {
			nreach += st.Reached
			proved += st.Proved
			concrete += st.Concrete
		}
		reachedAsserts += nreach
		for _, s := range r.Samples {
			if len(samples) < 12 {
				samples = append(samples, map[string]interface{}{"harness": r.Harness, "witness_model": s})
			}
		}
		reachByHarness[h.name] += nreach + len(r.Candidates)
		if !r.Exhausted || r.Inconclusive > 0 {
			cutShort[h.name] = true
		}
		if nreach == 0 && len(r.Candidates) == 0 && len(r.Unsupported) > 0 {
			unsupByHarness[h.name] = fmt.Sprint(r.Unsupported)
		}
		harnessSummaries = append(harnessSummaries, map[string]interface{}{
			"harness": r.Harness, "fixed": r.Fix, "shard": r.Shard, "decided_by_path_facts": r.FactHits, "paths": r.Paths, "paths_by_kind": r.PathsByKind, "dfs_exhausted": r.Exhausted,
			"asserts": r.Asserts, "forks": r.Forks, "solver_queries": r.Queries, "sat": r.QSat, "unsat": r.QUnsat, "unknown": r.QUnknown,
			"solver_errors": r.QErrors, "solver_s": r.SolverS, "wall_s": r.WallS, "load_s": r.LoadS, "unsupported": r.Unsupported,
			"inconclusive": r.Inconclusive, "candidates": len(r.Candidates), "repo_functions": r.RepoFuncs, "init_notes": r.InitNotes,
			"target_runtime_errors": r.RuntimeErrs,
			"feasibility_by_cached_model": r.ModelHits,
		})
		// candidates: group by label, replay up to 3 per label
		byLabel := map[string][]Candidate{}
		var labels []string
		for _, c := range r.Candidates {
			if _, ok := byLabel[c.Label]; !ok {
				labels = append(labels, c.Label)
			}
			byLabel[c.Label] = append(byLabel[c.Label], c)
		}
		sort.Strings(labels)
		for _, label := range labels {
			cs := byLabel[label]
			if decided[r.Harness+"|"+label] {
				continue // already confirmed from another shard of this harness
			}
			confirmed := false
			var confirmedPath string
			tries := 0
			for _, c := range cs {
				if tries >= 3 {
					break
				}
				tries++
				rp := writeReplay(prop, tier, c)
				if noReplay {
					spurious = append(spurious, map[string]interface{}{"harness": c.Harness, "label": c.Label, "replay": rp, "note": "not replayed (-noreplay)"})
					continue
				}
				ok, out := nativeReplay(repo, prop, hfs, h.pkg, c.Harness, rp, c.Kind, c.Label)
				if ok {
					confirmed = true
					confirmedPath = rp
					os.WriteFile(strings.TrimSuffix(rp, ".json")+".out.txt", []byte(out), 0o644)
					break
				}
				if len(out) > 1500 {
					out = out[len(out)-1500:]
				}
				spurious = append(spurious, map[string]interface{}{"harness": c.Harness, "label": c.Label, "replay": rp, "native_output_tail": out})
				os.Remove(rp)
			}
			if !confirmed {
				continue
			}
			decided[r.Harness+"|"+label] = true
			isKnown := false
			for _, kf := range known {
				if kf.Status != "fixed" && kf.Property == prop && kf.Harness == r.Harness && kf.Label == label {
					isKnown = true
					line := fmt.Sprintf("KNOWN-FINDING: property=%s harness=%s label=%s %s", prop, r.Harness, label, kf.What)
					lines = append(lines, line)
					knownHit = append(knownHit, line)
				}
			}
			if !isKnown {
				violations++
				exit = 1
				lines = append(lines, fmt.Sprintf("VIOLATION property=%s replay=%s", prop, confirmedPath))
				lines = append(lines, fmt.Sprintf("  harness=%s label=%s kind=%s %s", r.Harness, label, cs[0].Kind, cs[0].Msg))
			}
		}
	}
	// translator validation: one witness model per harness (a path on which every
	// assertion held) is replayed natively; the real build must agree.
	witnessOK, witnessBad := 0, 0
	if !noReplay {
		type wit struct{ harness, file string }
		byPkg := map[string][]wit{}
		seenH := map[string]bool{}
		for k, r := range results {
			if r.Error != "" || len(r.Samples) == 0 || seenH[r.Harness] || len(r.Candidates) > 0 {
				continue
			}
			seenH[r.Harness] = true
			rp := writeReplay(prop, tier, Candidate{Harness: r.Harness, Label: "witness", Kind: "witness", Values: r.Samples[0]})
			byPkg[sel[k].pkg] = append(byPkg[sel[k].pkg], wit{r.Harness, rp})
		}
		var pkgs []string
		for p := range byPkg {
			pkgs = append(pkgs, p)
		}
		sort.Strings(pkgs)
		for _, p := range pkgs {
			var hs, fs []string
			for _, w := range byPkg[p] {
				hs = append(hs, w.harness)
				fs = append(fs, w.file)
			}
			failedAt, out := nativeWitness(repo, prop, hfs, p, hs, fs)
			for i, w := range byPkg[p] {
				switch {
				case failedAt < 0 || i < failedAt:
					witnessOK++
					os.Remove(w.file)
				case i == failedAt:
					witnessBad++
					violations++
					exit = 1
					os.WriteFile(strings.TrimSuffix(w.file, ".json")+".out.txt", []byte(out), 0o644)
					lines = append(lines, fmt.Sprintf("VIOLATION property=%s replay=%s", prop, w.file))
					lines = append(lines, fmt.Sprintf("  harness=%s label=native-run-of-a-witness-model-fails kind=witness", w.harness))
				default:
					os.Remove(w.file) // not reached: the test binary stopped at the failing harness
				}
			}
		}
	}
	for _, h := range sel {
		if n, seen := reachByHarness[h.name]; seen && n == 0 && !vacReported[h.name] {
			vacReported[h.name] = true
			if cutShort[h.name] {
				// nothing was decided for this harness within the budget: a reduced bound
				// (reported in the evidence as not exhaustive), not a broken harness
				fmt.Fprintf(os.Stderr, "NOTE: %s: no assertion reached before the budget ran out\n", h.name)
				continue
			}
			machinery = append(machinery, fmt.Sprintf("%s: vacuous — no assertion reached on any path (%s)", h.name, unsupByHarness[h.name]))
		}
	}
	printed := map[string]bool{}
	for _, l := range lines {
		if strings.HasPrefix(l, "KNOWN-FINDING") {
			if printed[l] {
				continue
			}
			printed[l] = true
		}
		fmt.Println(l)
	}
	for _, m := range machinery {
		fmt.Fprintln(os.Stderr, "MACHINERY:", m)
	}
	if len(machinery) > 0 && exit == 0 {
		exit = 2
	}
	var fl []string
	for f := range funcs {
		fl = append(fl, f)
	}
	sort.Strings(fl)
	if len(samples) == 0 {
		samples = append(samples, "no completed path produced a witness model")
	}
	ev := map[string]interface{}{
		"property_id": prop,
		"tier":        tier,
		"seed":        seedFromEnv(),
		"level":       "model_checking",
		"wall_s":      wall.Seconds(),
		"violations":  violations,
		"coverage": map[string]interface{}{
			"states":                              totalPaths,
			"transitions":                         totalForks + totalPaths,
			"traces_validated_against_impl":       witnessOK + witnessBad + len(knownHit) + violations + len(spurious),
			"witness_models_replayed_natively_ok": witnessOK,
			"evaluations":                         totalQueries,
			"distinct_nontrivial":                 totalPaths,
			"rule":                                "states = distinct feasible symbolic paths (each a conjunction of branch decisions over the nd variables, decided by the solver); transitions = symbolic forks decided + path completions; evaluations = SMT check-sat queries; a path is non-trivial when its path condition is satisfiable (infeasible sides are never entered)",
			"samples":                             samples,
			"exhaustive":                          exhausted && inconclusive == 0 && unsupported == 0,
			"explanation":                         "bounded symbolic execution of the real SSA of /repo's working tree; every assertion is discharged by an SMT query over all values of the nd variables on that path",
			"harnesses":                           harnessSummaries,
			"functions_encoded":                   fl,
			"intrinsics_and_stubs":                intr,
			"assertions_reached":                  reachedAsserts,
			"assertion_queries_unsat":             proved,
			"assertions_concretely_true":          concrete,
			"solver_s":                            solverS,
			"inconclusive_paths_or_queries":       inconclusive,
			"unsupported_paths":                   unsupported,
			"dfs_exhausted":                       exhausted,
			"known_findings_hit":                  knownHit,
			"spurious_candidates":                 spurious,
			"machinery_problems":                  machinery,
		},
		"assumptions": assumptionsFor(prop),
	}
	os.MkdirAll(filepath.Join(verifRoot(), "evidence"), 0o755)
	b, _ := json.MarshalIndent(ev, "", " ")
	os.WriteFile(filepath.Join(verifRoot(), "evidence", prop+".json"), b, 0o644)
	fmt.Fprintf(os.Stderr, "%s %s: harnesses=%d paths=%d queries=%d solver=%.1fs wall=%.1fs violations=%d known=%d spurious=%d inconclusive=%d unsupported=%d exhausted=%v\n",
		prop, tier, len(results), totalPaths, totalQueries, solverS, wall.Seconds(), violations, len(knownHit), len(spurious), inconclusive, unsupported, exhausted)
	return exit
}

// memAvailableMB reads MemAvailable from /proc/meminfo (0 if unknown).
func memAvailableMB() int64 {
	b, err := os.ReadFile("/proc/meminfo")
	if err != nil {
		return 0
	}
	for _, l := range strings.Split(string(b), "\n") {
		if strings.HasPrefix(l, "MemAvailable:") {
			var kb int64
			fmt.Sscanf(strings.TrimSpace(strings.TrimPrefix(l, "MemAvailable:")), "%d", &kb)
			return kb / 1024
		}
	}
	return 0
}

func seedFromEnv() int {
	var s int
	fmt.Sscanf(os.Getenv("VERIF_SEED"), "%d", &s)
	return s
}

func assumptionsFor(prop string) []string {
	b, err := os.ReadFile(filepath.Join(verifRoot(), "harness", prop, "ASSUMPTIONS.txt"))
	base := []string{
		"engine: gosym (own SSA symbolic executor) is trusted; heap shape concrete, scalars/bytes symbolic; int = 64 bit; GOOS=linux",
		"z3 4.8.12 verdicts are trusted; any (error line or unknown is counted as inconclusive",
		"environment: os.Getenv returns \"\" unless the harness sets it; logrus calls are no-ops except Fatal*/Panic*",
		"goroutines run to completion at their spawn point unless the harness uses the task model",
		"map iteration is in insertion order unless inside nd.AnyMapOrder",
	}
	if err == nil {
		for _, l := range strings.Split(string(b), "\n") {
			if strings.TrimSpace(l) != "" {
				base = append(base, strings.TrimSpace(l))
			}
		}
	}
	return base
}
