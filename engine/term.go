package main

// Hash-consed bit-vector / boolean terms, SMT-LIB2 printing and a concrete
// evaluator (used for model-based feasibility shortcuts and counterexample
// extraction).

import (
	"fmt"
	"strings"
)

type Op uint8

const (
	OConst Op = iota
	OVar
	ONot
	OAnd
	OOr
	OIte
	OEq
	OAdd
	OSub
	OMul
	OUDiv
	OURem
	OSDiv
	OSRem
	OBAnd
	OBOr
	OBXor
	OBNot
	ONeg
	OShl
	OLShr
	OAShr
	OUlt
	OUle
	OSlt
	OSle
	OZext // val = target width
	OSext // val = target width
	OExtr // val = lo ; width = w
	OConcat
)

var opNames = [...]string{"const", "var", "not", "and", "or", "ite", "=", "bvadd", "bvsub", "bvmul",
	"bvudiv", "bvurem", "bvsdiv", "bvsrem", "bvand", "bvor", "bvxor", "bvnot", "bvneg", "bvshl", "bvlshr", "bvashr",
	"bvult", "bvule", "bvslt", "bvsle", "zero_extend", "sign_extend", "extract", "concat"}

// Term: w == 0 means sort Bool, otherwise (_ BitVec w).
type Term struct {
	op   Op
	w    int
	args []*Term
	val  uint64
	name string
	id   int
}

var (
	termTab  = map[string]*Term{}
	termSeq  int
	TrueT    = mkTerm(OConst, 0, nil, 1, "")
	FalseT   = mkTerm(OConst, 0, nil, 0, "")
	varTerms = map[string]*Term{}
)

func mask(w int) uint64 {
	if w >= 64 {
		return ^uint64(0)
	}
	return (uint64(1) << uint(w)) - 1
}

type termKey struct {
	op         Op
	w          int
	val        uint64
	name       string
	a0, a1, a2 int
	n          int
}

var termTab2 = map[termKey]*Term{}

func mkTerm(op Op, w int, args []*Term, val uint64, name string) *Term {
	if len(args) <= 3 {
		k := termKey{op: op, w: w, val: val, name: name, n: len(args)}
		switch len(args) {
		case 3:
			k.a2 = args[2].id
			fallthrough
		case 2:
			k.a1 = args[1].id
			fallthrough
		case 1:
			k.a0 = args[0].id
		}
		if t, ok := termTab2[k]; ok {
			return t
		}
		termSeq++
		t := &Term{op: op, w: w, args: args, val: val, name: name, id: termSeq}
		termTab2[k] = t
		return t
	}
	var sb strings.Builder
	fmt.Fprintf(&sb, "%d:%d:%d:%s", op, w, val, name)
	for _, a := range args {
		fmt.Fprintf(&sb, ",%d", a.id)
	}
	k := sb.String()
	if t, ok := termTab[k]; ok {
		return t
	}
	termSeq++
	t := &Term{op: op, w: w, args: args, val: val, name: name, id: termSeq}
	termTab[k] = t
	return t
}

var bv8 [256]*Term

func (t *Term) IsConst() bool { return t.op == OConst }
func (t *Term) IsBool() bool  { return t.w == 0 }

func BV(w int, v uint64) *Term {
	if w == 8 {
		v &= 0xff
		if t := bv8[v]; t != nil {
			return t
		}
		t := mkTerm(OConst, 8, nil, v, "")
		bv8[v] = t
		return t
	}
	return mkTerm(OConst, w, nil, v&mask(w), "")
}
func BoolT(b bool) *Term {
	if b {
		return TrueT
	}
	return FalseT
}
func Var(name string, w int) *Term {
	t := mkTerm(OVar, w, nil, 0, name)
	varTerms[name] = t
	return t
}

func sext64(v uint64, w int) int64 {
	if w >= 64 {
		return int64(v)
	}
	sh := uint(64 - w)
	return int64(v<<sh) >> sh
}

// evalOp computes op over constant args.
func evalOp(op Op, w int, val uint64, a []uint64, aw []int) uint64 {
	switch op {
	case ONot:
		return a[0] ^ 1
	case OAnd:
		r := uint64(1)
		for _, x := range a {
			r &= x
		}
		return r
	case OOr:
		r := uint64(0)
		for _, x := range a {
			r |= x
		}
		return r
	case OIte:
		if a[0] != 0 {
			return a[1]
		}
		return a[2]
	case OEq:
		if a[0] == a[1] {
			return 1
		}
		return 0
	case OAdd:
		return (a[0] + a[1]) & mask(w)
	case OSub:
		return (a[0] - a[1]) & mask(w)
	case OMul:
		return (a[0] * a[1]) & mask(w)
	case OUDiv:
		if a[1] == 0 {
			return mask(w)
		}
		return a[0] / a[1]
	case OURem:
		if a[1] == 0 {
			return a[0]
		}
		return a[0] % a[1]
	case OSDiv:
		x, y := sext64(a[0], w), sext64(a[1], w)
		if y == 0 {
			if x < 0 {
				return 1
			}
			return mask(w)
		}
		if y == -1 {
			return uint64(-x) & mask(w)
		}
		return uint64(x/y) & mask(w)
	case OSRem:
		x, y := sext64(a[0], w), sext64(a[1], w)
		if y == 0 {
			return a[0]
		}
		if y == -1 {
			return 0
		}
		return uint64(x%y) & mask(w)
	case OBAnd:
		return a[0] & a[1]
	case OBOr:
		return a[0] | a[1]
	case OBXor:
		return a[0] ^ a[1]
	case OBNot:
		return ^a[0] & mask(w)
	case ONeg:
		return (-a[0]) & mask(w)
	case OShl:
		if a[1] >= uint64(w) {
			return 0
		}
		return (a[0] << a[1]) & mask(w)
	case OLShr:
		if a[1] >= uint64(w) {
			return 0
		}
		return a[0] >> a[1]
	case OAShr:
		x := sext64(a[0], w)
		if a[1] >= uint64(w) {
			if x < 0 {
				return mask(w)
			}
			return 0
		}
		return uint64(x>>a[1]) & mask(w)
	case OUlt:
		return b2u(a[0] < a[1])
	case OUle:
		return b2u(a[0] <= a[1])
	case OSlt:
		return b2u(sext64(a[0], aw[0]) < sext64(a[1], aw[1]))
	case OSle:
		return b2u(sext64(a[0], aw[0]) <= sext64(a[1], aw[1]))
	case OZext:
		return a[0]
	case OSext:
		return uint64(sext64(a[0], aw[0])) & mask(w)
	case OExtr:
		return (a[0] >> val) & mask(w)
	case OConcat:
		return ((a[0] << uint(aw[1])) | a[1]) & mask(w)
	}
	panic("evalOp: bad op")
}

func b2u(b bool) uint64 {
	if b {
		return 1
	}
	return 0
}

// mk builds a term with constant folding and light simplification.
func mk(op Op, w int, val uint64, args ...*Term) *Term {
	allc := true
	for _, a := range args {
		if !a.IsConst() {
			allc = false
			break
		}
	}
	if allc && len(args) > 0 {
		av := make([]uint64, len(args))
		aw := make([]int, len(args))
		for i, a := range args {
			av[i], aw[i] = a.val, a.w
		}
		r := evalOp(op, w, val, av, aw)
		if w == 0 {
			return BoolT(r != 0)
		}
		return BV(w, r)
	}
	switch op {
	case ONot:
		a := args[0]
		if a.op == ONot {
			return a.args[0]
		}
	case OAnd:
		var out []*Term
		for _, a := range args {
			if a == FalseT {
				return FalseT
			}
			if a == TrueT {
				continue
			}
			if a.op == OAnd {
				out = append(out, a.args...)
				continue
			}
			out = append(out, a)
		}
		out = dedup(out)
		for _, a := range out {
			for _, b := range out {
				if a.op == ONot && a.args[0] == b {
					return FalseT
				}
			}
		}
		if len(out) == 0 {
			return TrueT
		}
		if len(out) == 1 {
			return out[0]
		}
		args = out
	case OOr:
		var out []*Term
		for _, a := range args {
			if a == TrueT {
				return TrueT
			}
			if a == FalseT {
				continue
			}
			if a.op == OOr {
				out = append(out, a.args...)
				continue
			}
			out = append(out, a)
		}
		out = dedup(out)
		for _, a := range out {
			for _, b := range out {
				if a.op == ONot && a.args[0] == b {
					return TrueT
				}
			}
		}
		if len(out) == 0 {
			return FalseT
		}
		if len(out) == 1 {
			return out[0]
		}
		args = out
	case OIte:
		c, a, b := args[0], args[1], args[2]
		if c == TrueT {
			return a
		}
		if c == FalseT {
			return b
		}
		if a == b {
			return a
		}
		if w == 0 {
			if a == TrueT && b == FalseT {
				return c
			}
			if a == FalseT && b == TrueT {
				return Not(c)
			}
		}
	case OEq:
		a, b := args[0], args[1]
		if a == b {
			return TrueT
		}
		if a.w == 0 {
			if a == TrueT {
				return b
			}
			if b == TrueT {
				return a
			}
			if a == FalseT {
				return Not(b)
			}
			if b == FalseT {
				return Not(a)
			}
		}
		// (= (zext x) const) with const out of range -> false; in range -> (= x const')
		if b.IsConst() && a.op == OZext {
			if b.val > mask(a.args[0].w) {
				return FalseT
			}
			return Eq(a.args[0], BV(a.args[0].w, b.val))
		}
		if a.IsConst() && b.op == OZext {
			return Eq(b, a)
		}
		if a.id > b.id {
			args = []*Term{b, a}
		}
	case OAdd, OBOr, OBXor:
		if args[1].IsConst() && args[1].val == 0 {
			return args[0]
		}
		if args[0].IsConst() && args[0].val == 0 {
			return args[1]
		}
	case OSub, OShl, OLShr, OAShr:
		if args[1].IsConst() && args[1].val == 0 {
			return args[0]
		}
	case OMul:
		if args[1].IsConst() && args[1].val == 1 {
			return args[0]
		}
		if args[0].IsConst() && args[0].val == 1 {
			return args[1]
		}
	case OZext, OSext:
		if args[0].w == w {
			return args[0]
		}
		if op == OZext && args[0].op == OZext {
			return mk(OZext, w, val, args[0].args[0])
		}
	case OExtr:
		if val == 0 && args[0].w == w {
			return args[0]
		}
		// extract low bits of a zero/sign extension of something at least as wide
		if val == 0 && (args[0].op == OZext || args[0].op == OSext) {
			in := args[0].args[0]
			if in.w == w {
				return in
			}
			if in.w > w {
				return mk(OExtr, w, 0, in)
			}
			return mk(args[0].op, w, uint64(w), in)
		}
	case OUlt:
		// x <u 0 is false
		if args[1].IsConst() && args[1].val == 0 {
			return FalseT
		}
	case OUle:
		if args[0].IsConst() && args[0].val == 0 {
			return TrueT
		}
	}
	return mkTerm(op, w, args, val, "")
}

func dedup(ts []*Term) []*Term {
	seen := map[*Term]bool{}
	out := ts[:0:0]
	for _, t := range ts {
		if !seen[t] {
			seen[t] = true
			out = append(out, t)
		}
	}
	return out
}

func Not(a *Term) *Term       { return mk(ONot, 0, 0, a) }
func And(a ...*Term) *Term    { return mk(OAnd, 0, 0, a...) }
func Or(a ...*Term) *Term     { return mk(OOr, 0, 0, a...) }
func Ite(c, a, b *Term) *Term { return mk(OIte, a.w, 0, c, a, b) }
func Eq(a, b *Term) *Term     { return mk(OEq, 0, 0, a, b) }
func Bin(op Op, a, b *Term) *Term {
	switch op {
	case OUlt, OUle, OSlt, OSle, OEq:
		return mk(op, 0, 0, a, b)
	}
	return mk(op, a.w, 0, a, b)
}
func Zext(a *Term, w int) *Term { return mk(OZext, w, uint64(w), a) }
func Sext(a *Term, w int) *Term { return mk(OSext, w, uint64(w), a) }
func Extract(a *Term, lo, w int) *Term {
	return mk(OExtr, w, uint64(lo), a)
}

// Resize converts a to width w (truncate, or extend according to signed).
func Resize(a *Term, w int, signed bool) *Term {
	switch {
	case a.w == w:
		return a
	case a.w > w:
		return Extract(a, 0, w)
	case signed:
		return Sext(a, w)
	default:
		return Zext(a, w)
	}
}

// Eval evaluates t under the model (missing variables are 0).
func Eval(t *Term, model map[string]uint64, memo map[*Term]uint64) uint64 {
	if t.op == OConst {
		return t.val
	}
	if v, ok := memo[t]; ok {
		return v
	}
	var r uint64
	if t.op == OVar {
		r = model[t.name] & maskOrBool(t.w)
	} else if t.op == OIte {
		if Eval(t.args[0], model, memo) != 0 {
			r = Eval(t.args[1], model, memo)
		} else {
			r = Eval(t.args[2], model, memo)
		}
	} else {
		av := make([]uint64, len(t.args))
		aw := make([]int, len(t.args))
		for i, a := range t.args {
			av[i], aw[i] = Eval(a, model, memo), a.w
		}
		r = evalOp(t.op, t.w, t.val, av, aw)
	}
	memo[t] = r
	return r
}

func maskOrBool(w int) uint64 {
	if w == 0 {
		return 1
	}
	return mask(w)
}

func sortStr(w int) string {
	if w == 0 {
		return "Bool"
	}
	return fmt.Sprintf("(_ BitVec %d)", w)
}

func constStr(t *Term) string {
	if t.w == 0 {
		if t.val != 0 {
			return "true"
		}
		return "false"
	}
	if t.w%4 == 0 {
		return fmt.Sprintf("#x%0*x", t.w/4, t.val)
	}
	return fmt.Sprintf("#b%0*b", t.w, t.val)
}

// Vars collects the variables of t.
func Vars(t *Term, seen map[*Term]bool, out *[]*Term) {
	if seen[t] {
		return
	}
	seen[t] = true
	if t.op == OVar {
		*out = append(*out, t)
	}
	for _, a := range t.args {
		Vars(a, seen, out)
	}
}

func (t *Term) String() string {
	var sb strings.Builder
	t.write(&sb, 0)
	return sb.String()
}

func (t *Term) write(sb *strings.Builder, depth int) {
	if depth > 12 {
		sb.WriteString("…")
		return
	}
	switch t.op {
	case OConst:
		sb.WriteString(constStr(t))
	case OVar:
		sb.WriteString(t.name)
	default:
		sb.WriteString("(")
		sb.WriteString(opNames[t.op])
		for _, a := range t.args {
			sb.WriteString(" ")
			a.write(sb, depth+1)
		}
		sb.WriteString(")")
	}
}
