package main

// Engine intrinsics: functions that cannot be executed from SSA (assembly,
// unsafe, reflection, the environment) and the nd ("nondet") API.

import (
	"fmt"
	"go/types"
	"math"
	"os"
	"sort"
	"strconv"
	"strings"
	"unsafe"

	"golang.org/x/tools/go/ssa"
)

type externalFn func(fr *frame, args []value) value

// Key strings are from Function.String().
var externals = map[string]externalFn{}

func init() {
	for k, v := range map[string]externalFn{
		// bytealg
		"internal/bytealg.IndexByte":                extIndexByte,
		"internal/bytealg.IndexByteString":          extIndexByte,
		"internal/bytealg.Count":                    extCount,
		"internal/bytealg.CountString":              extCount,
		"internal/bytealg.Equal":                    extBytesEqual,
		"internal/bytealg.Compare":                  extCompare,
		"internal/bytealg.CompareString":            extCompare,
		"internal/bytealg.Index":                    extIndex,
		"internal/bytealg.IndexString":              extIndex,
		"internal/bytealg.MakeNoZero":               extMakeNoZero,
		"internal/bytealg.Cutover":                  func(fr *frame, a []value) value { return 4 },
		"bytes.Equal":                               extBytesEqual,
		"internal/stringslite.Index":                nil,
		"internal/abi.NoEscape":                     func(fr *frame, a []value) value { return a[0] },
		"internal/abi.FuncPCABIInternal":            func(fr *frame, a []value) value { return uintptr(0) },
		"internal/abi.Escape":                       nil,
		"internal/race.Enabled":                     nil,
		"internal/godebug.(*Setting).Value":         func(fr *frame, a []value) value { return "" },
		"internal/godebug.(*Setting).IncNonDefault": func(fr *frame, a []value) value { return nil },
		"internal/godebug.New":                      func(fr *frame, a []value) value { return (*value)(nil) },

		// math
		"math.Float64frombits": func(fr *frame, a []value) value { return math.Float64frombits(cint(a[0]).(uint64)) },
		"math.Float64bits":     func(fr *frame, a []value) value { return math.Float64bits(a[0].(float64)) },
		"math.Float32frombits": func(fr *frame, a []value) value { return math.Float32frombits(cint(a[0]).(uint32)) },
		"math.Float32bits":     func(fr *frame, a []value) value { return math.Float32bits(a[0].(float32)) },
		"math.Abs":             func(fr *frame, a []value) value { return math.Abs(a[0].(float64)) },
		"math.Floor":           func(fr *frame, a []value) value { return math.Floor(a[0].(float64)) },
		"math.Ceil":            func(fr *frame, a []value) value { return math.Ceil(a[0].(float64)) },
		"math.Trunc":           func(fr *frame, a []value) value { return math.Trunc(a[0].(float64)) },
		"math.Sqrt":            func(fr *frame, a []value) value { return math.Sqrt(a[0].(float64)) },
		"math.Log":             func(fr *frame, a []value) value { return math.Log(a[0].(float64)) },
		"math.Exp":             func(fr *frame, a []value) value { return math.Exp(a[0].(float64)) },
		"math.Inf":             func(fr *frame, a []value) value { return math.Inf(a[0].(int)) },
		"math.IsNaN":           func(fr *frame, a []value) value { return math.IsNaN(a[0].(float64)) },
		"math.IsInf":           func(fr *frame, a []value) value { return math.IsInf(a[0].(float64), a[1].(int)) },
		"math.NaN":             func(fr *frame, a []value) value { return math.NaN() },
		"math.Pow":             func(fr *frame, a []value) value { return math.Pow(a[0].(float64), a[1].(float64)) },
		"math.Mod":             func(fr *frame, a []value) value { return math.Mod(a[0].(float64), a[1].(float64)) },
		"math.Modf": func(fr *frame, a []value) value {
			i, f := math.Modf(a[0].(float64))
			return tuple{i, f}
		},
		"math.Frexp": func(fr *frame, a []value) value {
			f, e := math.Frexp(a[0].(float64))
			return tuple{f, e}
		},
		"math.Ldexp":    func(fr *frame, a []value) value { return math.Ldexp(a[0].(float64), a[1].(int)) },
		"math.Copysign": func(fr *frame, a []value) value { return math.Copysign(a[0].(float64), a[1].(float64)) },
		"strconv.FormatFloat": func(fr *frame, a []value) value {
			return strconv.FormatFloat(a[0].(float64), a[1].(byte), a[2].(int), a[3].(int))
		},
		"strconv.ParseFloat": nil,

		// os / runtime / time
		"os.Exit":   func(fr *frame, a []value) value { panic(exitPanic{int(asInt64(a[0])), "os.Exit"}) },
		"os.Getenv": extGetenv,
		// the process's standard streams are not modelled (package os is not initialised):
		// whatever the target prints is discarded, as if written successfully
		"(*os.File).Write": func(fr *frame, a []value) value {
			n := 0
			if b, ok := a[1].([]value); ok {
				n = len(b)
			}
			return tuple{n, iface{}}
		},
		"(*os.File).WriteString": func(fr *frame, a []value) value {
			n := 0
			switch x := a[1].(type) {
			case string:
				n = len(x)
			case sstr:
				n = len(x.b)
			}
			return tuple{n, iface{}}
		},
		"os.LookupEnv": func(fr *frame, a []value) value {
			return tuple{extGetenv(fr, a), false}
		},
		"os.Getwd":                 func(fr *frame, a []value) value { return tuple{"/cwd", iface{}} },
		"syscall.Getenv":           func(fr *frame, a []value) value { return tuple{"", false} },
		"runtime.GC":               func(fr *frame, a []value) value { return nil },
		"runtime.Gosched":          func(fr *frame, a []value) value { yield("gosched"); return nil },
		"runtime.GOMAXPROCS":       func(fr *frame, a []value) value { return 1 },
		"runtime.NumCPU":           func(fr *frame, a []value) value { return 1 },
		"runtime.KeepAlive":        func(fr *frame, a []value) value { return nil },
		"runtime.SetFinalizer":     func(fr *frame, a []value) value { return nil },
		"runtime.Callers":          func(fr *frame, a []value) value { return 0 },
		"runtime.Caller":           func(fr *frame, a []value) value { return tuple{uintptr(0), "", 0, false} },
		"runtime.Stack":            func(fr *frame, a []value) value { return 0 },
		"runtime/debug.Stack":      func(fr *frame, a []value) value { return []value{} },
		"runtime/debug.PrintStack": func(fr *frame, a []value) value { return nil },
		"time.Sleep":               func(fr *frame, a []value) value { yield("sleep"); return nil },
		"time.now":                 func(fr *frame, a []value) value { return tuple{int64(1700000000), int32(0), int64(1)} },
		"time.runtimeNano":         func(fr *frame, a []value) value { return int64(1) },

		// sync
		"(*sync.Mutex).Lock":      extMutexLock,
		"(*sync.Mutex).Unlock":    extMutexUnlock,
		"(*sync.Mutex).TryLock":   func(fr *frame, a []value) value { return true },
		"(*sync.RWMutex).Lock":    extMutexLock,
		"(*sync.RWMutex).Unlock":  extMutexUnlock,
		"(*sync.RWMutex).RLock":   func(fr *frame, a []value) value { sched.rlock(a[0].(*value)); return nil },
		"(*sync.RWMutex).RUnlock": func(fr *frame, a []value) value { sched.runlock(a[0].(*value)); return nil },
		"(*sync.Once).Do":         extOnceDo,
		"(*sync.Pool).Get":        extPoolGet,
		"(*sync.Pool).Put":        func(fr *frame, a []value) value { return nil },
		"(*sync.WaitGroup).Add":   extWGAdd,
		"(*sync.WaitGroup).Done":  func(fr *frame, a []value) value { return extWGAdd(fr, []value{a[0], -1}) },
		"(*sync.WaitGroup).Wait":  extWGWait,

		// atomic
		"sync/atomic.LoadInt32":             extAtomicLoad,
		"sync/atomic.LoadInt64":             extAtomicLoad,
		"sync/atomic.LoadUint32":            extAtomicLoad,
		"sync/atomic.LoadUint64":            extAtomicLoad,
		"sync/atomic.LoadUintptr":           extAtomicLoad,
		"sync/atomic.LoadPointer":           extAtomicLoad,
		"sync/atomic.StoreInt32":            extAtomicStore,
		"sync/atomic.StoreInt64":            extAtomicStore,
		"sync/atomic.StoreUint32":           extAtomicStore,
		"sync/atomic.StoreUint64":           extAtomicStore,
		"sync/atomic.StoreUintptr":          extAtomicStore,
		"sync/atomic.StorePointer":          extAtomicStore,
		"sync/atomic.AddInt32":              extAtomicAdd,
		"sync/atomic.AddInt64":              extAtomicAdd,
		"sync/atomic.AddUint32":             extAtomicAdd,
		"sync/atomic.AddUint64":             extAtomicAdd,
		"sync/atomic.AddUintptr":            extAtomicAdd,
		"sync/atomic.CompareAndSwapInt32":   extAtomicCAS,
		"sync/atomic.CompareAndSwapInt64":   extAtomicCAS,
		"sync/atomic.CompareAndSwapUint32":  extAtomicCAS,
		"sync/atomic.CompareAndSwapUint64":  extAtomicCAS,
		"sync/atomic.CompareAndSwapUintptr": extAtomicCAS,
		"sync/atomic.CompareAndSwapPointer": extAtomicCAS,
		"sync/atomic.SwapInt32":             extAtomicSwap,
		"sync/atomic.SwapInt64":             extAtomicSwap,
		"sync/atomic.SwapUint32":            extAtomicSwap,
		"sync/atomic.SwapUint64":            extAtomicSwap,
		"sync/atomic.SwapPointer":           extAtomicSwap,

		// fmt
		"fmt.Sprintf":  extSprintf,
		"fmt.Errorf":   extErrorf,
		"fmt.Sprint":   extSprint,
		"fmt.Sprintln": extSprintln,
		"fmt.Fprintf":  extFprintf,
		"fmt.Fprint":   extFprint,
		"fmt.Fprintln": extFprintln,
		"fmt.Printf":   func(fr *frame, a []value) value { return tuple{0, iface{}} },
		"fmt.Print":    func(fr *frame, a []value) value { return tuple{0, iface{}} },
		"fmt.Println":  func(fr *frame, a []value) value { return tuple{0, iface{}} },

		// strings.Builder (unsafe)
		"(*strings.Builder).String":    extBuilderString,
		"(*strings.Builder).copyCheck": func(fr *frame, a []value) value { return nil },

		"errors.Is":                    extErrorsIs,
		"encoding/json.Unmarshal":      extJSONUnmarshal,
		"sort.Slice":                   extSortSlice,
		"sort.SliceStable":             extSortSlice,
		"reflect.Swapper":              extSwapper,
		"internal/reflectlite.Swapper": extSwapper,

		// reflect (minimal)
		"reflect.TypeOf": extReflectTypeOf,

		// sort with host fast paths is unnecessary: sort runs from SSA.

		// protobuf: structural stand-ins
		"google.golang.org/protobuf/proto.Equal":                             extProtoEqual,
		"github.com/golang/protobuf/proto.Equal":                             extProtoEqual,
		"(google.golang.org/protobuf/internal/impl.Export).MessageStringOf":  func(fr *frame, a []value) value { return "<proto message>" },
		"(*google.golang.org/protobuf/internal/impl.Export).MessageStringOf": func(fr *frame, a []value) value { return "<proto message>" },
	} {
		if v != nil {
			externals[k] = v
		}
	}
}

func extGetenv(fr *frame, a []value) value {
	name, _ := a[0].(string)
	if v, ok := envOverride[name]; ok {
		return v
	}
	return ""
}

var envOverride = map[string]string{}

// ---- bytealg ----

func seqBytes(v value) []value {
	switch x := v.(type) {
	case []value:
		return x
	case string, sstr:
		return strBytes(x)
	}
	panic(fmt.Sprintf("seqBytes: %T", v))
}

func byteEq(a, b value) *Term {
	return Eq(byteTerm(a), byteTerm(b))
}

func extIndexByte(fr *frame, args []value) value {
	s := seqBytes(args[0])
	c := args[1]
	for i, b := range s {
		if ex.Branch(byteEq(b, c)) {
			return i
		}
	}
	return -1
}

func extCount(fr *frame, args []value) value {
	s := seqBytes(args[0])
	c := args[1]
	n := 0
	for _, b := range s {
		if ex.Branch(byteEq(b, c)) {
			n++
		}
	}
	return n
}

func extBytesEqual(fr *frame, args []value) value {
	a, b := seqBytes(args[0]), seqBytes(args[1])
	if len(a) != len(b) {
		return false
	}
	cs := make([]*Term, len(a))
	for i := range a {
		cs[i] = byteEq(a[i], b[i])
	}
	return mkVal(types.Bool, And(cs...))
}

func extCompare(fr *frame, args []value) value {
	a, b := seqBytes(args[0]), seqBytes(args[1])
	n := len(a)
	if len(b) < n {
		n = len(b)
	}
	for i := 0; i < n; i++ {
		x, y := byteTerm(a[i]), byteTerm(b[i])
		if ex.Branch(Eq(x, y)) {
			continue
		}
		if ex.Branch(Bin(OUlt, x, y)) {
			return -1
		}
		return 1
	}
	switch {
	case len(a) < len(b):
		return -1
	case len(a) > len(b):
		return 1
	}
	return 0
}

func extIndex(fr *frame, args []value) value {
	a, b := seqBytes(args[0]), seqBytes(args[1])
	for i := 0; i+len(b) <= len(a); i++ {
		cs := make([]*Term, len(b))
		for j := range b {
			cs[j] = byteEq(a[i+j], b[j])
		}
		if ex.Branch(And(cs...)) {
			return i
		}
	}
	return -1
}

func extMakeNoZero(fr *frame, args []value) value {
	n := int(asInt64(args[0]))
	s := make([]value, n)
	for i := range s {
		s[i] = uint8(0)
	}
	return s
}

func extBuilderString(fr *frame, args []value) value {
	p := args[0].(*value)
	st := (*p).(structure)
	// type Builder struct { addr *Builder; buf []byte }
	buf, _ := st[1].([]value)
	return mkStr(buf)
}

// ---- sync ----

func extMutexLock(fr *frame, args []value) value {
	sched.lock(args[0].(*value))
	return nil
}

func extMutexUnlock(fr *frame, args []value) value {
	sched.unlock(args[0].(*value))
	return nil
}

func extOnceDo(fr *frame, args []value) value {
	p := args[0].(*value)
	st := (*p).(structure)
	done := st[0].(structure) // atomic.Uint32{_ noCopy; v uint32}
	if done[len(done)-1].(uint32) != 0 {
		return nil
	}
	done[len(done)-1] = uint32(1)
	call(fr.i, fr, fr.pos, args[1], nil)
	return nil
}

func extPoolGet(fr *frame, args []value) value {
	p := args[0].(*value)
	st := (*p).(structure)
	// last field: New func() any
	newf := st[len(st)-1]
	switch f := newf.(type) {
	case *ssa.Function:
		if f == nil {
			return iface{}
		}
	case nil:
		return iface{}
	}
	return call(fr.i, fr, fr.pos, newf, nil)
}

func extWGAdd(fr *frame, args []value) value {
	p := args[0].(*value)
	sched.wg[p] += int(asInt64(args[1]))
	if sched.wg[p] < 0 {
		panic(targetPanic{iface{fr.i.runtimeErrorString, "sync: negative WaitGroup counter"}})
	}
	return nil
}

func extWGWait(fr *frame, args []value) value {
	p := args[0].(*value)
	sched.waitUntil("wg.Wait", func() bool { return sched.wg[p] == 0 })
	return nil
}

// ---- atomic ----

func extAtomicLoad(fr *frame, args []value) value {
	return *args[0].(*value)
}

func extAtomicStore(fr *frame, args []value) value {
	*args[0].(*value) = args[1]
	return nil
}

func extAtomicAdd(fr *frame, args []value) value {
	p := args[0].(*value)
	*p = binopAdd(*p, args[1])
	return *p
}

func extAtomicSwap(fr *frame, args []value) value {
	p := args[0].(*value)
	old := *p
	*p = args[1]
	return old
}

func extAtomicCAS(fr *frame, args []value) value {
	p := args[0].(*value)
	if equals(nil, *p, args[1]) {
		*p = args[2]
		return true
	}
	return false
}

// ---- reflect (minimal) ----

type rtypeMethod struct {
	name string
	rt   rtype
}

func extReflectTypeOf(fr *frame, args []value) value {
	x := args[0].(iface)
	if x.t == nil {
		return iface{}
	}
	return iface{fr.i.rtypePtr, rtype{x.t}}
}

func callRtypeMethod(i *interpreter, m *rtypeMethod, args []value) value {
	t := m.rt.t
	switch m.name {
	case "Elem":
		switch u := t.Underlying().(type) {
		case *types.Pointer:
			return iface{i.rtypePtr, rtype{u.Elem()}}
		case *types.Slice:
			return iface{i.rtypePtr, rtype{u.Elem()}}
		case *types.Array:
			return iface{i.rtypePtr, rtype{u.Elem()}}
		case *types.Map:
			return iface{i.rtypePtr, rtype{u.Elem()}}
		case *types.Chan:
			return iface{i.rtypePtr, rtype{u.Elem()}}
		}
		panic(targetPanic{iface{i.runtimeErrorString, "reflect: Elem of invalid type " + t.String()}})
	case "Implements":
		u := args[1].(iface).v.(rtype).t
		it, ok := u.Underlying().(*types.Interface)
		if !ok {
			panic(targetPanic{iface{i.runtimeErrorString, "reflect: non-interface type passed to Type.Implements"}})
		}
		return types.Implements(t, it)
	case "ConvertibleTo":
		u := args[1].(iface).v.(rtype).t
		return types.ConvertibleTo(t, u)
	case "AssignableTo":
		u := args[1].(iface).v.(rtype).t
		return types.AssignableTo(t, u)
	case "Comparable":
		return types.Comparable(t)
	case "String":
		return types.TypeString(t, func(p *types.Package) string { return p.Name() })
	case "Name":
		if n, ok := t.(*types.Named); ok {
			return n.Obj().Name()
		}
		if b, ok := t.(*types.Basic); ok {
			return b.Name()
		}
		return ""
	case "PkgPath":
		if n, ok := t.(*types.Named); ok && n.Obj().Pkg() != nil {
			return n.Obj().Pkg().Path()
		}
		return ""
	case "Kind":
		return uint(reflectKind(t))
	}
	panic(pathEnd{peUnsupported, "reflect.Type method " + m.name})
}

func reflectKind(t types.Type) int {
	switch t := t.Underlying().(type) {
	case *types.Basic:
		switch t.Kind() {
		case types.Bool:
			return 1
		case types.Int:
			return 2
		case types.Int8:
			return 3
		case types.Int16:
			return 4
		case types.Int32:
			return 5
		case types.Int64:
			return 6
		case types.Uint:
			return 7
		case types.Uint8:
			return 8
		case types.Uint16:
			return 9
		case types.Uint32:
			return 10
		case types.Uint64:
			return 11
		case types.Uintptr:
			return 12
		case types.Float32:
			return 13
		case types.Float64:
			return 14
		case types.Complex64:
			return 15
		case types.Complex128:
			return 16
		case types.String:
			return 24
		case types.UnsafePointer:
			return 26
		}
	case *types.Array:
		return 17
	case *types.Chan:
		return 18
	case *types.Signature:
		return 19
	case *types.Interface:
		return 20
	case *types.Map:
		return 21
	case *types.Pointer:
		return 22
	case *types.Slice:
		return 23
	case *types.Struct:
		return 25
	}
	return 0
}

func binopAdd(x, y value) value {
	tx, k := termOf(x)
	ty, _ := termOf(y)
	return mkVal(k, Bin(OAdd, tx, ty))
}

// ---- logrus ----

func callLogrus(fr *frame, fn *ssa.Function, args []value) value {
	n := fn.Name()
	if ex != nil {
		ex.IntrinsicHit["logrus."+n]++
	}
	switch {
	case strings.HasPrefix(n, "Fatal"):
		panic(exitPanic{1, "logrus." + n})
	case strings.HasPrefix(n, "Panic") && n != "PanicLevel":
		panic(targetPanic{iface{types.Typ[types.String], "logrus." + n}})
	}
	return zeroResult(fn)
}

// ---- nd ----

func ndName(v value) string {
	s, ok := v.(string)
	if !ok {
		panic("nd: variable names must be concrete strings")
	}
	return s
}

func callND(fr *frame, name string, args []value) value {
	switch name {
	case "Bool":
		return sym{ex.newVar(ndName(args[0]), 0), types.Bool}
	case "Int":
		bits := int(asInt64(args[1]))
		t := ex.newVar(ndName(args[0]), bits)
		return mkVal(types.Int64, Resize(t, 64, true))
	case "Uint":
		bits := int(asInt64(args[1]))
		t := ex.newVar(ndName(args[0]), bits)
		return mkVal(types.Uint64, Resize(t, 64, false))
	case "IntRange", "Choice", "SymRange":
		var lo, hi int64
		if name == "Choice" {
			lo, hi = 0, asInt64(args[1])-1
		} else {
			lo, hi = asInt64(args[1]), asInt64(args[2])
		}
		if hi < lo {
			panic(pathEnd{peInfeasible, "empty range"})
		}
		t := ex.newVar(ndName(args[0]), 64)
		ex.Assume(And(Bin(OSle, BV(64, uint64(lo)), t), Bin(OSle, t, BV(64, uint64(hi)))))
		if fv, ok := ex.fixed[ndName(args[0])]; ok && name != "SymRange" {
			if fv < lo || fv > hi {
				panic(pathEnd{peInfeasible, "fixed value outside range"})
			}
			ex.Assume(Eq(t, BV(64, uint64(fv))))
			return int(fv)
		}
		if name == "SymRange" {
			return sym{t, types.Int}
		}
		if hi-lo <= 64 {
			alts := make([]*Term, 0, hi-lo+1)
			for v := lo; v <= hi; v++ {
				alts = append(alts, Eq(t, BV(64, uint64(v))))
			}
			i := ex.Fork("range:"+ndName(args[0]), alts)
			return int(lo + int64(i))
		}
		return int(int64(ex.Concretize(t, ndName(args[0]))))
	case "Byte":
		return sym{ex.newVar(ndName(args[0]), 8), types.Uint8}
	case "Bytes":
		n := int(asInt64(args[1]))
		out := make([]value, n)
		for i := range out {
			out[i] = sym{ex.newVar(fmt.Sprintf("%s[%d]", ndName(args[0]), i), 8), types.Uint8}
		}
		return out
	case "StringN":
		n := int(asInt64(args[1]))
		if n == 0 {
			return ""
		}
		out := make([]value, n)
		for i := range out {
			out[i] = sym{ex.newVar(fmt.Sprintf("%s[%d]", ndName(args[0]), i), 8), types.Uint8}
		}
		return sstr{out}
	case "String":
		max := asInt64(args[1])
		nm := ndName(args[0])
		lt := ex.newVar(nm+".len", 64)
		ex.Assume(And(Bin(OSle, BV(64, 0), lt), Bin(OSle, lt, BV(64, uint64(max)))))
		var n int
		if fv, ok := ex.fixed[nm+".len"]; ok {
			if fv < 0 || fv > max {
				panic(pathEnd{peInfeasible, "fixed length outside range"})
			}
			ex.Assume(Eq(lt, BV(64, uint64(fv))))
			n = int(fv)
		} else {
			alts := make([]*Term, 0, max+1)
			for v := int64(0); v <= max; v++ {
				alts = append(alts, Eq(lt, BV(64, uint64(v))))
			}
			n = ex.Fork("strlen:"+nm, alts)
		}
		if n == 0 {
			return ""
		}
		out := make([]value, n)
		for i := range out {
			out[i] = sym{ex.newVar(fmt.Sprintf("%s[%d]", nm, i), 8), types.Uint8}
		}
		return sstr{out}
	case "Assume":
		t, _ := termOf(args[0])
		ex.Assume(t)
		return nil
	case "Assert":
		t, _ := termOf(args[1])
		f := fr
		ex.Assert(ndName(args[0]), t, func() []string { return stackTrace(f) })
		return nil
	case "Concrete":
		return cint(args[0])
	case "ConcreteString":
		b := strBytes(args[0])
		out := make([]byte, len(b))
		for i, x := range b {
			out[i] = cint(x).(uint8)
		}
		return string(out)
	case "IsSymbolic":
		return true
	case "Recovered":
		return ndRecovered(fr, args[0])
	case "AnyMapOrder":
		fr.i.mapOrderAny++
		if fr.i.mapOrderAny == 1 {
			fr.i.mapOrderEpoch++
		}
		defer func() { fr.i.mapOrderAny-- }()
		call(fr.i, fr, fr.pos, args[0], nil)
		return nil
	case "Stub":
		target := ndName(args[0])
		var f *ssa.Function
		switch x := args[1].(iface).v.(type) {
		case *ssa.Function:
			f = x
		case *closure:
			panic("nd.Stub: replacement must be a top-level function, not a closure")
		}
		fr.i.stubs[target] = f
		return nil
	case "Unstub":
		delete(fr.i.stubs, ndName(args[0]))
		return nil
	case "TaskModel":
		sched.enable()
		return nil
	case "PreemptionBound":
		sched.preemptBound = int(asInt64(args[0]))
		return nil
	case "Yield":
		yield(ndName(args[0]))
		return nil
	case "Note":
		if os.Getenv("GOSYM_NOTES") != "" {
			fmt.Fprintln(os.Stderr, "NOTE:", toString(args[0]))
		}
		return nil
	case "Setenv":
		envOverride[ndName(args[0])] = ndName(args[1])
		return nil
	case "Replaying":
		return false
	case "ProtoEqualNoCtx":
		x, y := args[0].(iface), args[1].(iface)
		if x.t == nil || y.t == nil {
			return x.t == nil && y.t == nil
		}
		if !types.Identical(x.t, y.t) {
			return false
		}
		deepEqSkipCtx = true
		defer func() { deepEqSkipCtx = false }()
		return mkVal(types.Bool, deepEqTerm(x.t, x.v, y.v, 0))
	case "Thorough":
		return tierName == "thorough"
	case "BudgetSteps":
		ex.maxSteps = asInt64(args[0])
		return nil
	case "BudgetDepth":
		ex.maxDepth = int(asInt64(args[0]))
		return nil
	}
	panic(pathEnd{peUnsupported, "unknown nd function " + name})
}

// ndRecovered runs f and reports whether a target panic / process exit escaped it.
func ndRecovered(fr *frame, f value) (res value) {
	defer func() {
		r := recover()
		if r == nil {
			return
		}
		switch p := r.(type) {
		case pathEnd:
			if p.kind == peBudget {
				res = tuple{true, "UNWIND: " + p.msg}
				return
			}
			panic(r)
		case exitPanic:
			res = tuple{true, fmt.Sprintf("EXIT(%d): %s", p.code, p.why)}
			return
		case deadlockPanic:
			res = tuple{true, "DEADLOCK: " + p.msg}
			return
		case *runtimeTypeAssertion:
			panic(r)
		}
		if isEnginePanic(r) {
			panic(r)
		}
		where := ""
		if lastPanic.payload == r {
			where = " @ " + lastPanic.where
		}
		res = tuple{true, "PANIC: " + panicString(fr.i, fr, r) + where}
	}()
	savedDepth := ex.depth
	defer func() { ex.depth = savedDepth }()
	call(fr.i, fr, fr.pos, f, nil)
	return tuple{false, ""}
}

type runtimeTypeAssertion struct{}

// panicString renders a panic payload roughly as the Go runtime would.
func panicString(i *interpreter, fr *frame, r interface{}) string {
	switch p := r.(type) {
	case targetPanic:
		return valueString(i, fr, p.v)
	case goRuntimeError:
		return string(p)
	case error:
		return "host: " + p.Error()
	case string:
		return "host: " + p
	}
	return fmt.Sprint(r)
}

// valueString renders an interface value for messages (calls Error/String methods).
func valueString(i *interpreter, fr *frame, v value) string {
	b := formatOperand(i, fr, 'v', "", v)
	var sb strings.Builder
	for _, x := range b {
		if c, ok := x.(uint8); ok {
			sb.WriteByte(c)
		} else {
			sb.WriteByte('?')
		}
	}
	return sb.String()
}

func stackTrace(fr *frame) []string {
	var out []string
	for f := fr; f != nil && len(out) < 12; f = f.caller {
		out = append(out, f.fn.String()+" "+loc(f.fn.Prog.Fset, f.pos))
	}
	return out
}

// ---- map iteration order ----

func newMapIter(m *omap) iter {
	it := &mapIter{m: m}
	if m == nil || curInterp == nil || curInterp.mapOrderAny == 0 || m.len() < 2 {
		return it
	}
	// One arbitrary order per map object and AnyMapOrder region: the order is chosen
	// (by nd choices) the first time the map is ranged over and reused afterwards;
	// entries added later follow in insertion order.
	var live []*mentry
	for _, e := range m.entries {
		if !e.deleted {
			live = append(live, e)
		}
	}
	if m.permEpoch == curInterp.mapOrderEpoch && m.perm != nil {
		seen := map[*mentry]bool{}
		var order []*mentry
		for _, e := range m.perm {
			if !e.deleted {
				order = append(order, e)
				seen[e] = true
			}
		}
		for _, e := range live {
			if !seen[e] {
				order = append(order, e)
			}
		}
		it.order = order
		return it
	}
	n := len(live)
	order := make([]*mentry, 0, n)
	if n <= 3 {
		rest := append([]*mentry(nil), live...)
		for len(rest) > 1 {
			t := ex.newVar("maporder", 64)
			alts := make([]*Term, len(rest))
			for k := range rest {
				alts[k] = Eq(t, BV(64, uint64(k)))
			}
			ex.Assume(Bin(OUlt, t, BV(64, uint64(len(rest)))))
			k := ex.Fork("maporder", alts)
			order = append(order, rest[k])
			rest = append(rest[:k:k], rest[k+1:]...)
		}
		order = append(order, rest[0])
	} else {
		// identity, reversal and rotations
		t := ex.newVar("maporder", 64)
		alts := make([]*Term, n+1)
		for k := range alts {
			alts[k] = Eq(t, BV(64, uint64(k)))
		}
		ex.Assume(Bin(OUle, t, BV(64, uint64(n))))
		k := ex.Fork("maporder", alts)
		if k == n {
			for j := n - 1; j >= 0; j-- {
				order = append(order, live[j])
			}
		} else {
			order = append(order, live[k:]...)
			order = append(order, live[:k]...)
		}
	}
	m.perm = order
	m.permEpoch = curInterp.mapOrderEpoch
	it.order = order
	return it
}

var curInterp *interpreter

// ---- goroutines (cooperative tasks, scheduled by nd choices) ----
//
// Default: a goroutine runs to completion at its spawn point (one legal schedule
// when it does not block). After nd.TaskModel() every `go` creates a task; at each
// scheduling point (spawn, task end, Mutex.Lock/Unlock, WaitGroup.Wait, nd.Yield,
// runtime.Gosched, time.Sleep) the next runnable task is chosen by a solver-visible
// choice, so the DFS enumerates the interleavings at that granularity. The executor
// is sequentially consistent between scheduling points.

type task struct {
	id      int
	resume  chan struct{}
	done    bool
	blocked func() bool
	what    string
}

type taskKilled struct{}

// deadlockPanic: the target can make no further progress (every goroutine blocked, or a
// Lock of a mutex nobody will release). nd.Recovered reports it like a crash; target
// recover() does not see it.
type deadlockPanic struct{ msg string }

type scheduler struct {
	wg      map[*value]int
	locks   map[*value]bool
	readers map[*value]int
	// sequential model: go statements run to completion at the spawn point; seqStack holds
	// the ids of the goroutines currently "running" (innermost last), lockOwner who locked
	lockOwner map[*value]int
	seqStack  []int
	seqNext   int
	taskMode  bool
	tasks     []*task
	cur       *task
	abort     interface{}
	killing   bool
	exited    chan struct{}
	switches  int

	preemptions  int
	preemptBound int
}

var sched = &scheduler{wg: map[*value]int{}, locks: map[*value]bool{}, readers: map[*value]int{}}

func (s *scheduler) reset() {
	s.killAll()
	s.wg = map[*value]int{}
	s.locks = map[*value]bool{}
	s.readers = map[*value]int{}
	s.lockOwner = nil
	s.seqStack = nil
	s.seqNext = 0
	s.taskMode = false
	s.tasks = nil
	s.cur = nil
	s.abort = nil
	s.killing = false
	s.switches = 0
	s.preemptions = 0
	s.preemptBound = 2
}

// killAll terminates parked task goroutines left over from the previous path.
func (s *scheduler) killAll() {
	if len(s.tasks) == 0 {
		return
	}
	s.killing = true
	for _, t := range s.tasks {
		if t.id != 0 && !t.done {
			t.resume <- struct{}{}
			<-s.exited
		}
	}
	s.killing = false
}

func (s *scheduler) enable() {
	if s.taskMode {
		return
	}
	s.taskMode = true
	main := &task{id: 0, resume: make(chan struct{})}
	s.tasks = []*task{main}
	s.cur = main
	s.exited = make(chan struct{})
}

func (s *scheduler) runnable() []*task {
	var out []*task
	for _, t := range s.tasks {
		if t.done {
			continue
		}
		if t.blocked != nil && t.blocked() {
			continue
		}
		out = append(out, t)
	}
	return out
}

// point is a scheduling point reached by the current task.
func (s *scheduler) point(why string) {
	if !s.taskMode {
		return
	}
	cur := s.cur
	r := s.runnable()
	if len(r) == 0 {
		s.fail(deadlockPanic{"every goroutine is blocked (at " + why + ")"})
		return
	}
	// preemption bounding: once the bound is used up a runnable task keeps running
	curRunnable := false
	for _, t := range r {
		if t == cur {
			curRunnable = true
		}
	}
	if curRunnable && s.preemptions >= s.preemptBound {
		return
	}
	pick := r[0]
	if len(r) > 1 {
		t := ex.newVar("sched", 64)
		alts := make([]*Term, len(r))
		for k := range r {
			alts[k] = Eq(t, BV(64, uint64(k)))
		}
		ex.Assume(Bin(OUlt, t, BV(64, uint64(len(r)))))
		pick = r[ex.Fork("sched:"+why, alts)]
	}
	if pick == cur {
		return
	}
	if curRunnable {
		s.preemptions++
	}
	s.switchTo(cur, pick)
}

func (s *scheduler) switchTo(cur, next *task) {
	s.switches++
	s.cur = next
	next.resume <- struct{}{}
	if cur.done {
		return // the finished task's goroutine just returns
	}
	<-cur.resume
	s.cur = cur
	if s.killing {
		panic(taskKilled{})
	}
	if s.abort != nil && cur.id == 0 {
		r := s.abort
		s.abort = nil
		panic(r)
	}
}

// fail aborts the whole path from whichever task detected the problem.
func (s *scheduler) fail(r interface{}) {
	if s.cur == nil || s.cur.id == 0 {
		panic(r)
	}
	s.abort = r
	cur := s.cur
	s.cur = s.tasks[0]
	s.tasks[0].resume <- struct{}{}
	<-cur.resume // parked until killed
	panic(taskKilled{})
}

func (s *scheduler) lock(p *value) {
	if !s.taskMode {
		cur := 0
		if n := len(s.seqStack); n > 0 {
			cur = s.seqStack[n-1]
		}
		if s.readers[p] > 0 {
			panic(pathEnd{peUnsupported, "Lock of a read-locked mutex in sequential model"})
		}
		if s.locks[p] {
			owner := s.lockOwner[p]
			if owner != cur {
				for _, g := range s.seqStack {
					if g == owner {
						// held by a goroutine that is still running and would release it: only
						// the run-to-completion model of go statements makes this look stuck
						panic(pathEnd{peUnsupported, "Lock of a mutex held by a spawning goroutine in sequential model"})
					}
				}
				if owner == 0 {
					panic(pathEnd{peUnsupported, "Lock of a mutex held by the main goroutine in sequential model"})
				}
			}
			// held by this goroutine itself, or left locked by a goroutine that has returned
			panic(deadlockPanic{"Lock of a mutex that is never released"})
		}
		s.locks[p] = true
		if s.lockOwner == nil {
			s.lockOwner = map[*value]int{}
		}
		s.lockOwner[p] = cur
		return
	}
	s.point("lock")
	held := func() bool { return s.locks[p] || s.readers[p] > 0 }
	if held() {
		cur := s.cur
		for held() { // woken but may lose the race again
			cur.blocked = held
			s.point("lock-wait")
			cur.blocked = nil
		}
	}
	s.locks[p] = true
}

// rlock / runlock: shared holders are counted; they exclude only writers.
func (s *scheduler) rlock(p *value) {
	if !s.taskMode {
		if s.locks[p] {
			panic(pathEnd{peUnsupported, "RLock of a write-locked mutex in sequential model"})
		}
		s.readers[p]++
		return
	}
	s.point("rlock")
	cur := s.cur
	for s.locks[p] {
		cur.blocked = func() bool { return s.locks[p] }
		s.point("rlock-wait")
		cur.blocked = nil
	}
	s.readers[p]++
}

func (s *scheduler) runlock(p *value) {
	if s.readers[p] <= 0 {
		panic(targetPanic{iface{types.Typ[types.String], "sync: RUnlock of unlocked RWMutex"}})
	}
	s.readers[p]--
	s.point("runlock")
}

func (s *scheduler) unlock(p *value) {
	if !s.locks[p] {
		panic(targetPanic{iface{types.Typ[types.String], "sync: unlock of unlocked mutex"}})
	}
	delete(s.locks, p)
	s.point("unlock")
}

func (s *scheduler) waitUntil(what string, cond func() bool) {
	if !s.taskMode {
		if !cond() {
			panic(pathEnd{peUnsupported, "would block forever in sequential task model: " + what})
		}
		return
	}
	cur := s.cur
	for !cond() {
		cur.blocked = func() bool { return !cond() }
		s.point(what)
		cur.blocked = nil
	}
}

func yield(point string) { sched.point(point) }

// spawn runs a goroutine (see the comment at the top of this section).
func spawn(fr *frame, instr *ssa.Go, fn value, args []value) {
	if !sched.taskMode {
		savedDepth := ex.depth
		sched.seqNext++
		sched.seqStack = append(sched.seqStack, sched.seqNext)
		n := len(sched.seqStack)
		defer func() { ex.depth = savedDepth; sched.seqStack = sched.seqStack[:n-1] }()
		call(fr.i, nil, instr.Pos(), fn, args)
		return
	}
	s := sched
	t := &task{id: len(s.tasks), resume: make(chan struct{})}
	s.tasks = append(s.tasks, t)
	i := fr.i
	pos := instr.Pos()
	go func() {
		<-t.resume
		if s.killing {
			t.done = true
			s.exited <- struct{}{}
			return
		}
		defer func() {
			r := recover()
			if _, ok := r.(taskKilled); ok || s.killing {
				t.done = true
				s.exited <- struct{}{}
				return
			}
			if r != nil {
				// an uncaught panic (or engine event) in a goroutine ends the whole program
				t.done = true
				s.abort = r
				s.cur = s.tasks[0]
				s.tasks[0].resume <- struct{}{}
				return
			}
		}()
		call(i, nil, pos, fn, args)
		t.done = true
		s.point("task-end")
	}()
	s.point("spawn")
}

func chanSend(ch value, v value) {
	c := ch.(chan value)
	if c == nil {
		panic(pathEnd{peUnsupported, "send on nil channel blocks forever"})
	}
	select {
	case c <- v:
	default:
		panic(pathEnd{peUnsupported, "channel send would block in sequential task model"})
	}
}

func chanRecv(instr *ssa.UnOp, x value) value {
	c := x.(chan value)
	var v value
	var ok bool
	if c == nil {
		panic(pathEnd{peUnsupported, "receive on nil channel blocks forever"})
	}
	select {
	case v, ok = <-c:
	default:
		panic(pathEnd{peUnsupported, "channel receive would block in sequential task model"})
	}
	if !ok {
		v = zero(instr.X.Type().Underlying().(*types.Chan).Elem())
	}
	if instr.CommaOk {
		v = tuple{v, ok}
	}
	return v
}

func doSelect(fr *frame, instr *ssa.Select) value {
	// try each case in order without blocking
	for i, st := range instr.States {
		c := fr.get(st.Chan).(chan value)
		if c == nil {
			continue
		}
		if st.Dir == types.RecvOnly {
			select {
			case v, ok := <-c:
				r := tuple{i, ok}
				for j, st2 := range instr.States {
					if st2.Dir == types.RecvOnly {
						if j == i && ok {
							r = append(r, v)
						} else {
							r = append(r, zero(st2.Chan.Type().Underlying().(*types.Chan).Elem()))
						}
					}
				}
				return r
			default:
			}
		} else {
			select {
			case c <- fr.get(st.Send):
				r := tuple{i, false}
				for _, st2 := range instr.States {
					if st2.Dir == types.RecvOnly {
						r = append(r, zero(st2.Chan.Type().Underlying().(*types.Chan).Elem()))
					}
				}
				return r
			default:
			}
		}
	}
	if instr.Blocking {
		panic(pathEnd{peUnsupported, "select would block in sequential task model"})
	}
	r := tuple{-1, false}
	for _, st2 := range instr.States {
		if st2.Dir == types.RecvOnly {
			r = append(r, zero(st2.Chan.Type().Underlying().(*types.Chan).Elem()))
		}
	}
	return r
}

var _ = sort.Ints
var _ = unsafe.Pointer(nil)

// protoEnumString models the generated String() method of protobuf enums by
// looking the value up in the generated <Enum>_name map (read from the
// package's own initialiser).
func protoEnumString(i *interpreter, fr *frame, fn *ssa.Function, args []value) (value, bool) {
	if fn.Name() != "String" || fn.Signature.Recv() == nil || len(args) != 1 {
		return nil, false
	}
	named, ok := fn.Signature.Recv().Type().(*types.Named)
	if !ok || fn.Pkg == nil {
		return nil, false
	}
	if b, ok := named.Underlying().(*types.Basic); !ok || b.Kind() != types.Int32 {
		return nil, false
	}
	g := fn.Pkg.Var(named.Obj().Name() + "_name")
	if g == nil {
		return nil, false
	}
	m, ok := (*i.globalAddr(g)).(*omap)
	if !ok || m == nil {
		return nil, false
	}
	if ex != nil {
		ex.IntrinsicHit["protoenum.String"]++
	}
	if v, ok := m.lookup(args[0]); ok {
		return v, true
	}
	return strconv.Itoa(int(asInt64(args[0]))), true
}

func extSwapper(fr *frame, a []value) value {
	xs, _ := a[0].(iface).v.([]value)
	return &hostFunc{name: "swapper", f: func(fr *frame, args []value) value {
		i, j := int(asInt64(args[0])), int(asInt64(args[1]))
		xs[i], xs[j] = xs[j], xs[i]
		return nil
	}}
}

// sort.Slice / sort.SliceStable: the real pdqsort_func / stable_func run from
// SSA; only the reflection-based swapper is supplied by the engine.
func extSortSlice(fr *frame, a []value) value {
	xs, ok := a[0].(iface).v.([]value)
	if !ok {
		panic(pathEnd{peUnsupported, "sort.Slice on non-slice"})
	}
	swap := extSwapper(fr, a)
	pkg := fr.i.prog.ImportedPackage("sort")
	ls := structure{a[1], swap} // lessSwap{Less, Swap}
	n := len(xs)
	if strings.HasSuffix(fr.fn.Name(), "Stable") {
		f := pkg.Func("stable_func")
		call(fr.i, fr, fr.pos, f, []value{ls, n})
		return nil
	}
	limit := 0
	for x := uint(n); x != 0; x >>= 1 {
		limit++
	}
	f := pkg.Func("pdqsort_func")
	call(fr.i, fr, fr.pos, f, []value{ls, 0, n, limit})
	return nil
}

// proto.Equal on generated messages: structural equality of the exported
// fields (the contract of proto.Equal for messages without unknown fields).
func extProtoEqual(fr *frame, a []value) value {
	x, y := a[0].(iface), a[1].(iface)
	if x.t == nil || y.t == nil {
		return x.t == nil && y.t == nil
	}
	if !types.Identical(x.t, y.t) {
		return false
	}
	return mkVal(types.Bool, deepEqTerm(x.t, x.v, y.v, 0))
}

var deepEqSkipCtx bool

func isProtoInternalField(f *types.Var) bool {
	if deepEqSkipCtx && (f.Name() == "SourceContext" || f.Name() == "SourceContexts") {
		return true
	}
	switch f.Name() {
	case "state", "sizeCache", "unknownFields", "XXX_NoUnkeyedLiteral", "XXX_unrecognized", "XXX_sizecache":
		return true
	}
	return false
}

func deepEqTerm(t types.Type, x, y value, depth int) *Term {
	if depth > 512 {
		panic(pathEnd{peUnsupported, "deepEqTerm: recursion too deep (cyclic message?)"})
	}
	switch u := t.Underlying().(type) {
	case *types.Pointer:
		px, py := x.(*value), y.(*value)
		if px == nil || py == nil {
			return BoolT(px == nil && py == nil)
		}
		if px == py {
			return TrueT
		}
		return deepEqTerm(u.Elem(), *px, *py, depth+1)
	case *types.Struct:
		sx, sy := x.(structure), y.(structure)
		cs := []*Term{}
		for i := 0; i < u.NumFields(); i++ {
			f := u.Field(i)
			if isProtoInternalField(f) {
				continue
			}
			c := deepEqTerm(f.Type(), sx[i], sy[i], depth+1)
			if c == FalseT {
				return FalseT
			}
			cs = append(cs, c)
		}
		return And(cs...)
	case *types.Slice:
		ax, ay := x.([]value), y.([]value)
		if len(ax) != len(ay) {
			return FalseT
		}
		cs := []*Term{}
		for i := range ax {
			c := deepEqTerm(u.Elem(), ax[i], ay[i], depth+1)
			if c == FalseT {
				return FalseT
			}
			cs = append(cs, c)
		}
		return And(cs...)
	case *types.Map:
		mx, my := x.(*omap), y.(*omap)
		if mx.len() != my.len() {
			return FalseT
		}
		if mx.len() == 0 {
			return TrueT
		}
		cs := []*Term{}
		for _, e := range mx.entries {
			if e.deleted {
				continue
			}
			v2, ok := my.lookup(e.k)
			if !ok {
				return FalseT
			}
			c := deepEqTerm(u.Elem(), e.v, v2, depth+1)
			if c == FalseT {
				return FalseT
			}
			cs = append(cs, c)
		}
		return And(cs...)
	case *types.Interface:
		ix, iy := x.(iface), y.(iface)
		if ix.t == nil || iy.t == nil {
			return BoolT(ix.t == nil && iy.t == nil)
		}
		if !types.Identical(ix.t, iy.t) {
			return FalseT
		}
		return deepEqTerm(ix.t, ix.v, iy.v, depth+1)
	case *types.Basic:
		if u.Info()&types.IsFloat != 0 {
			return BoolT(x == y)
		}
		return eqTerm(t, x, y)
	}
	return eqTerm(t, x, y)
}

// errors.Is without reflectlite: identity / Is(target) method / Unwrap chain.
func extErrorsIs(fr *frame, a []value) value {
	err, target := a[0].(iface), a[1].(iface)
	if err.t == nil || target.t == nil {
		return err.t == nil && target.t == nil
	}
	comparable := types.Comparable(target.t)
	for depth := 0; depth < 64; depth++ {
		if comparable && sameType(err.t, target.t) {
			if cbool(mkVal(types.Bool, eqTerm(err.t, err.v, target.v))) {
				return true
			}
		}
		if m := safeLookupMethod(fr.i, err.t, "Is"); m != nil && m.Signature.Params().Len() == 1 && m.Signature.Results().Len() == 1 {
			if cbool(callSSA(fr.i, fr, fr.pos, m, []value{err.v, target}, nil)) {
				return true
			}
		}
		m := safeLookupMethod(fr.i, err.t, "Unwrap")
		if m == nil || m.Signature.Params().Len() != 0 || m.Signature.Results().Len() != 1 {
			return false
		}
		res := callSSA(fr.i, fr, fr.pos, m, []value{err.v}, nil)
		switch r := res.(type) {
		case iface:
			if r.t == nil {
				return false
			}
			err = r
		case []value: // Unwrap() []error
			for _, e := range r {
				if cbool(extErrorsIs(fr, []value{e, target})) {
					return true
				}
			}
			return false
		default:
			return false
		}
	}
	return false
}

// safeLookupMethod returns the exported method `name` of t, or nil when t has none.
func safeLookupMethod(i *interpreter, t types.Type, name string) *ssa.Function {
	ms := i.prog.MethodSets.MethodSet(t)
	sel := ms.Lookup(nil, name)
	if sel == nil {
		return nil
	}
	return i.prog.MethodValue(sel)
}

// json.Unmarshal(data, &string): decoding of one JSON string literal over (possibly
// symbolic) ASCII bytes, the only use the code under test makes of it (fromQString).
// Other targets are not modelled.
func extJSONUnmarshal(fr *frame, a []value) value {
	data := a[0].([]value)
	target := a[1].(iface)
	ptr, ok := target.t.Underlying().(*types.Pointer)
	if !ok {
		panic(pathEnd{peUnsupported, "json.Unmarshal: target is not a pointer"})
	}
	if b, ok := ptr.Elem().Underlying().(*types.Basic); !ok || b.Kind() != types.String {
		panic(pathEnd{peUnsupported, "json.Unmarshal into " + ptr.Elem().String()})
	}
	mkErr := func(msg string) value {
		pkg := fr.i.prog.ImportedPackage("errors")
		cell := value(structure{"json: " + msg})
		return iface{types.NewPointer(pkg.Type("errorString").Type()), &cell}
	}
	is := func(b value, c byte) bool { return ex.Branch(Eq(byteTerm(b), BV(8, uint64(c)))) }
	isWS := func(b value) bool {
		t := byteTerm(b)
		return ex.Branch(Or(Eq(t, BV(8, ' ')), Eq(t, BV(8, '\n')), Eq(t, BV(8, '\t')), Eq(t, BV(8, '\r'))))
	}
	i := 0
	for i < len(data) && isWS(data[i]) {
		i++
	}
	if i >= len(data) || !is(data[i], '"') {
		return mkErr("not a string literal")
	}
	i++
	var out []value
	closed := false
	for i < len(data) {
		b := data[i]
		t := byteTerm(b)
		if ex.Branch(Eq(t, BV(8, '"'))) {
			closed = true
			i++
			break
		}
		if ex.Branch(Bin(OUlt, t, BV(8, 0x20))) {
			return mkErr("invalid character in string literal")
		}
		if ex.Branch(Not(Bin(OUlt, t, BV(8, 0x80)))) {
			panic(pathEnd{peUnsupported, "json.Unmarshal: non-ASCII byte in string literal"})
		}
		if !ex.Branch(Eq(t, BV(8, '\\'))) {
			out = append(out, b)
			i++
			continue
		}
		i++
		if i >= len(data) {
			return mkErr("unexpected end of JSON input")
		}
		e := cint(data[i]).(uint8)
		i++
		switch e {
		case '"', '\\', '/', '\'':
			out = append(out, e)
		case 'b':
			out = append(out, uint8('\b'))
		case 'f':
			out = append(out, uint8('\f'))
		case 'n':
			out = append(out, uint8('\n'))
		case 'r':
			out = append(out, uint8('\r'))
		case 't':
			out = append(out, uint8('\t'))
		case 'u':
			if i+4 > len(data) {
				return mkErr("invalid escape")
			}
			var r rune
			for k := 0; k < 4; k++ {
				c := cint(data[i+k]).(uint8)
				var d byte
				switch {
				case c >= '0' && c <= '9':
					d = c - '0'
				case c >= 'a' && c <= 'f':
					d = c - 'a' + 10
				case c >= 'A' && c <= 'F':
					d = c - 'A' + 10
				default:
					return mkErr("invalid escape")
				}
				r = r*16 + rune(d)
			}
			i += 4
			if r >= 0xD800 && r < 0xE000 {
				panic(pathEnd{peUnsupported, "json.Unmarshal: surrogate escapes"})
			}
			for _, c := range []byte(string(r)) {
				out = append(out, c)
			}
		default:
			return mkErr("invalid character in string escape code")
		}
	}
	if !closed {
		return mkErr("unexpected end of JSON input")
	}
	for i < len(data) {
		if !isWS(data[i]) {
			return mkErr("invalid character after top-level value")
		}
		i++
	}
	p := target.v.(*value)
	*p = mkStr(out)
	return iface{}
}
