package main

// fmt intrinsics: Sprintf and friends over (possibly symbolic) strings.

import (
	"fmt"
	"go/types"
	"strings"

	"golang.org/x/tools/go/ssa"
)

func strToBytes(s string) []value {
	b := make([]value, len(s))
	for i := 0; i < len(s); i++ {
		b[i] = s[i]
	}
	return b
}

// hostBasic converts a concrete basic value to a host value for fmt.
func hostBasic(v value) (interface{}, bool) {
	switch x := v.(type) {
	case bool, int, int8, int16, int32, int64, uint, uint8, uint16, uint32, uint64, uintptr, float32, float64, complex64, complex128, string:
		return x, true
	}
	return nil, false
}

func findMethod(i *interpreter, t types.Type, name string) *ssa.Function {
	if t == nil {
		return nil
	}
	ms := i.prog.MethodSets.MethodSet(t)
	for k := 0; k < ms.Len(); k++ {
		sel := ms.At(k)
		if sel.Obj().Name() == name {
			sig := sel.Type().(*types.Signature)
			if sig.Params().Len() == 0 && sig.Results().Len() == 1 {
				if b, ok := sig.Results().At(0).Type().Underlying().(*types.Basic); ok && b.Kind() == types.String {
					return i.prog.MethodValue(sel)
				}
			}
		}
	}
	return nil
}

// formatOperand renders one operand (an interface value or raw value) for verb.
func formatOperand(i *interpreter, fr *frame, verb byte, flags string, arg value) []value {
	var t types.Type
	v := arg
	if itf, ok := arg.(iface); ok {
		t, v = itf.t, itf.v
		if t == nil {
			if verb == 'T' {
				return strToBytes("<nil>")
			}
			return strToBytes("<nil>")
		}
	}
	if verb == 'T' {
		if t == nil {
			return strToBytes(fmt.Sprintf("%T", v))
		}
		return strToBytes(types.TypeString(t, func(p *types.Package) string { return p.Name() }))
	}
	// Error() / String() methods
	if t != nil && (verb == 'v' || verb == 's' || verb == 'q' || verb == 'w') && !strings.Contains(flags, "#") {
		for _, mname := range []string{"Error", "String"} {
			if m := findMethod(i, t, mname); m != nil {
				if p, ok := v.(*value); ok && p == nil {
					// nil pointer receiver: fmt prints <nil>
					if _, isPtr := t.Underlying().(*types.Pointer); isPtr {
						return strToBytes("<nil>")
					}
				}
				res := callSSA(i, fr, fr.pos, m, []value{v}, nil)
				if verb == 'q' {
					return quoteBytes(strBytes(res))
				}
				return padBytes(strBytes(res), flags)
			}
		}
	}
	switch x := v.(type) {
	case string, sstr:
		switch verb {
		case 'v', 's', 'w':
			if strings.Contains(flags, "#") && verb == 'v' {
				return quoteBytes(strBytes(x))
			}
			return padBytes(strBytes(x), flags)
		case 'q':
			return quoteBytes(strBytes(x))
		}
		if s, ok := x.(string); ok {
			return strToBytes(fmt.Sprintf("%"+flags+string(verb), s))
		}
		panic(pathEnd{peUnsupported, "fmt verb %" + string(verb) + " on symbolic string"})
	case sym:
		// formatting decimal digits of a symbolic integer: concretise
		return formatOperand(i, fr, verb, flags, cint(x))
	case []value:
		if t != nil {
			if sl, ok := t.Underlying().(*types.Slice); ok {
				if b, ok := sl.Elem().Underlying().(*types.Basic); ok && b.Kind() == types.Uint8 && (verb == 's' || verb == 'q') {
					if verb == 'q' {
						return quoteBytes(x)
					}
					return padBytes(x, flags)
				}
				out := strToBytes("[")
				for k, e := range x {
					if k > 0 {
						out = append(out, uint8(' '))
					}
					out = append(out, formatOperand(i, fr, verb, flags, wrapElem(sl.Elem(), e))...)
				}
				return append(out, uint8(']'))
			}
		}
		out := strToBytes("[")
		for k, e := range x {
			if k > 0 {
				out = append(out, uint8(' '))
			}
			out = append(out, formatOperand(i, fr, verb, flags, e)...)
		}
		return append(out, uint8(']'))
	case *value:
		if x == nil {
			return strToBytes("<nil>")
		}
		if t != nil {
			if pt, ok := t.Underlying().(*types.Pointer); ok {
				if _, ok := pt.Elem().Underlying().(*types.Struct); ok && verb == 'v' {
					return append(strToBytes("&"), formatOperand(i, fr, verb, flags, iface{pt.Elem(), *x})...)
				}
			}
		}
		return strToBytes("0xc000000000")
	case structure:
		out := strToBytes("{")
		var st *types.Struct
		if t != nil {
			st, _ = t.Underlying().(*types.Struct)
		}
		for k, e := range x {
			if k > 0 {
				out = append(out, uint8(' '))
			}
			if st != nil {
				if strings.Contains(flags, "+") {
					out = append(out, strToBytes(st.Field(k).Name()+":")...)
				}
				out = append(out, formatOperand(i, fr, verb, flags, wrapElem(st.Field(k).Type(), e))...)
			} else {
				out = append(out, formatOperand(i, fr, verb, flags, e)...)
			}
		}
		return append(out, uint8('}'))
	case *omap:
		out := strToBytes("map[")
		if x != nil {
			first := true
			for _, e := range x.entries {
				if e.deleted {
					continue
				}
				if !first {
					out = append(out, uint8(' '))
				}
				first = false
				out = append(out, formatOperand(i, fr, verb, flags, e.k)...)
				out = append(out, uint8(':'))
				out = append(out, formatOperand(i, fr, verb, flags, e.v)...)
			}
		}
		return append(out, uint8(']'))
	case iface:
		return formatOperand(i, fr, verb, flags, x)
	case array:
		out := strToBytes("[")
		for k, e := range x {
			if k > 0 {
				out = append(out, uint8(' '))
			}
			out = append(out, formatOperand(i, fr, verb, flags, e)...)
		}
		return append(out, uint8(']'))
	case nil:
		return strToBytes("<nil>")
	case *ssa.Function, *closure:
		return strToBytes("0xfunc")
	}
	if h, ok := hostBasic(v); ok {
		if verb == 'w' {
			verb = 'v'
		}
		return strToBytes(fmt.Sprintf("%"+flags+string(verb), h))
	}
	return strToBytes(fmt.Sprintf("<%T>", v))
}

func wrapElem(t types.Type, v value) value {
	if _, ok := t.Underlying().(*types.Interface); ok {
		return v
	}
	return iface{t, v}
}

func padBytes(b []value, flags string) []value {
	if flags == "" {
		return b
	}
	// width / left-justify / precision
	left := strings.Contains(flags, "-")
	f := strings.Trim(flags, "-+# 0")
	if f == "" {
		return b
	}
	width, prec := 0, -1
	if k := strings.IndexByte(f, '.'); k >= 0 {
		fmt.Sscanf(f[k+1:], "%d", &prec)
		f = f[:k]
	}
	fmt.Sscanf(f, "%d", &width)
	if prec >= 0 && prec < len(b) {
		b = b[:prec]
	}
	if len(b) >= width {
		return b
	}
	pad := strToBytes(strings.Repeat(" ", width-len(b)))
	if left {
		return append(append([]value{}, b...), pad...)
	}
	return append(pad, b...)
}

// quoteBytes implements %q for byte sequences; symbolic bytes are forked into
// the classes that strconv.Quote distinguishes.
func quoteBytes(b []value) []value {
	conc := true
	for _, x := range b {
		if _, ok := x.(uint8); !ok {
			conc = false
		}
	}
	if conc {
		bs := make([]byte, len(b))
		for i, x := range b {
			bs[i] = x.(uint8)
		}
		return strToBytes(fmt.Sprintf("%q", string(bs)))
	}
	out := []value{uint8('"')}
	for _, x := range b {
		s, ok := x.(sym)
		if !ok {
			q := fmt.Sprintf("%q", string([]byte{x.(uint8)}))
			out = append(out, strToBytes(q[1:len(q)-1])...)
			continue
		}
		plain := And(Bin(OUle, BV(8, 0x20), s.t), Bin(OUlt, s.t, BV(8, 0x7f)), Not(Eq(s.t, BV(8, '"'))), Not(Eq(s.t, BV(8, '\\'))))
		if ex.Branch(plain) {
			out = append(out, x)
			continue
		}
		c := cint(x).(uint8)
		if c >= 0x80 {
			panic(pathEnd{peUnsupported, "%q of symbolic non-ASCII byte"})
		}
		q := fmt.Sprintf("%q", string([]byte{c}))
		out = append(out, strToBytes(q[1:len(q)-1])...)
	}
	return append(out, uint8('"'))
}

// sprintf formats according to a concrete format string.
func sprintf(i *interpreter, fr *frame, format value, args []value) []value {
	f, ok := format.(string)
	if !ok {
		panic(pathEnd{peUnsupported, "symbolic format string"})
	}
	var out []value
	argi := 0
	for k := 0; k < len(f); k++ {
		c := f[k]
		if c != '%' {
			out = append(out, c)
			continue
		}
		k++
		if k >= len(f) {
			out = append(out, strToBytes("%!(NOVERB)")...)
			break
		}
		start := k
		for k < len(f) && strings.IndexByte("+-# 0123456789.*", f[k]) >= 0 {
			k++
		}
		if k >= len(f) {
			out = append(out, strToBytes("%!(NOVERB)")...)
			break
		}
		flags := f[start:k]
		verb := f[k]
		if verb == '%' {
			out = append(out, uint8('%'))
			continue
		}
		if strings.Contains(flags, "*") {
			if argi >= len(args) {
				out = append(out, strToBytes("%!(BADWIDTH)")...)
				flags = strings.Replace(flags, "*", "", 1)
			} else if u, _, isInt := intInfo(cint(args[argi].(iface).v)); isInt {
				argi++
				flags = strings.Replace(flags, "*", fmt.Sprint(int64(u)), 1)
			} else {
				argi++
				out = append(out, strToBytes("%!(BADWIDTH)")...)
				flags = strings.Replace(flags, "*", "", 1)
			}
		}
		if argi >= len(args) {
			out = append(out, strToBytes("%!"+string(verb)+"(MISSING)")...)
			continue
		}
		out = append(out, formatOperand(i, fr, verb, flags, args[argi])...)
		argi++
	}
	if argi < len(args) {
		out = append(out, strToBytes("%!(EXTRA ")...)
		for j := argi; j < len(args); j++ {
			if j > argi {
				out = append(out, strToBytes(", ")...)
			}
			out = append(out, formatOperand(i, fr, 'T', "", args[j])...)
			out = append(out, uint8('='))
			out = append(out, formatOperand(i, fr, 'v', "", args[j])...)
		}
		out = append(out, uint8(')'))
	}
	return out
}

func extSprintf(fr *frame, a []value) value {
	return mkStr(sprintf(fr.i, fr, a[0], a[1].([]value)))
}

func isStringOperand(v value) bool {
	if itf, ok := v.(iface); ok {
		if itf.t == nil {
			return false
		}
		if b, ok := itf.t.Underlying().(*types.Basic); ok && b.Kind() == types.String {
			return true
		}
	}
	return false
}

func sprint(i *interpreter, fr *frame, args []value, ln bool) []value {
	var out []value
	for k, arg := range args {
		if k > 0 && (ln || (!isStringOperand(arg) && !isStringOperand(args[k-1]))) {
			out = append(out, uint8(' '))
		}
		out = append(out, formatOperand(i, fr, 'v', "", arg)...)
	}
	if ln {
		out = append(out, uint8('\n'))
	}
	return out
}

func extSprint(fr *frame, a []value) value   { return mkStr(sprint(fr.i, fr, a[0].([]value), false)) }
func extSprintln(fr *frame, a []value) value { return mkStr(sprint(fr.i, fr, a[0].([]value), true)) }

func writeTo(fr *frame, w value, b []value) value {
	itf := w.(iface)
	if itf.t == nil {
		panic(goRuntimeError("runtime error: invalid memory address or nil pointer dereference"))
	}
	m := fr.i.prog.LookupMethod(itf.t, nil, "Write")
	if m == nil {
		panic("fmt.Fprint*: writer has no Write method")
	}
	cp := make([]value, len(b))
	copy(cp, b)
	return callSSA(fr.i, fr, fr.pos, m, []value{itf.v, cp}, nil)
}

func extFprintf(fr *frame, a []value) value {
	return writeTo(fr, a[0], sprintf(fr.i, fr, a[1], a[2].([]value)))
}
func extFprint(fr *frame, a []value) value {
	return writeTo(fr, a[0], sprint(fr.i, fr, a[1].([]value), false))
}
func extFprintln(fr *frame, a []value) value {
	return writeTo(fr, a[0], sprint(fr.i, fr, a[1].([]value), true))
}

func extErrorf(fr *frame, a []value) value {
	args := a[1].([]value)
	msg := mkStr(sprintf(fr.i, fr, a[0], args))
	f, _ := a[0].(string)
	// %w: wrap the first such operand
	if strings.Contains(f, "%w") {
		wi := -1
		ai := 0
		for k := 0; k+1 < len(f); k++ {
			if f[k] == '%' {
				if f[k+1] == '%' {
					k++
					continue
				}
				j := k + 1
				for j < len(f) && strings.IndexByte("+-# 0123456789.", f[j]) >= 0 {
					j++
				}
				if j < len(f) && f[j] == 'w' && wi < 0 {
					wi = ai
				}
				ai++
				k = j
			}
		}
		if wi >= 0 && wi < len(args) {
			if pkg := fr.i.prog.ImportedPackage("fmt"); pkg != nil {
				if tn := pkg.Type("wrapError"); tn != nil {
					cell := value(structure{msg, args[wi]})
					return iface{types.NewPointer(tn.Type()), &cell}
				}
			}
		}
	}
	pkg := fr.i.prog.ImportedPackage("errors")
	tn := pkg.Type("errorString")
	cell := value(structure{msg})
	return iface{types.NewPointer(tn.Type()), &cell}
}
