package main

// Insertion-ordered maps with support for symbolic keys.
//
// Concrete, hashable keys are indexed through a host map on a canonical
// encoding; keys containing symbolic data are compared entry by entry with
// eqTerm, forking where equality is undecided.

import (
	"fmt"
	"go/types"
	"strings"
	"unsafe"
)

type mentry struct {
	k, v    value
	deleted bool
	ck      string
	hasCK   bool
}

type omap struct {
	kt      types.Type
	entries []*mentry
	idx     map[string]*mentry
	n       int
	nsym    int // live entries with symbolic keys
	id      int

	perm      []*mentry // iteration order chosen inside nd.AnyMapOrder
	permEpoch int
}

var omapSeq int

func makeMap(kt types.Type, reserve int64) value {
	omapSeq++
	return &omap{kt: kt, idx: map[string]*mentry{}, id: omapSeq}
}

// canonKey returns a canonical encoding for fully concrete keys.
func canonKey(sb *strings.Builder, v value) bool {
	switch x := v.(type) {
	case bool:
		if x {
			sb.WriteString("T")
		} else {
			sb.WriteString("F")
		}
	case string:
		fmt.Fprintf(sb, "s%d:%s", len(x), x)
	case sym, sstr:
		return false
	case *value:
		fmt.Fprintf(sb, "p%x", uintptr(unsafe.Pointer(x)))
	case chan value:
		fmt.Fprintf(sb, "c%p", x)
	case float32:
		fmt.Fprintf(sb, "f%v", x)
	case float64:
		fmt.Fprintf(sb, "f%v", x)
	case complex64:
		fmt.Fprintf(sb, "z%v", x)
	case complex128:
		fmt.Fprintf(sb, "z%v", x)
	case unsafe.Pointer:
		fmt.Fprintf(sb, "u%x", uintptr(x))
	case structure:
		sb.WriteString("{")
		for _, f := range x {
			if !canonKey(sb, f) {
				return false
			}
			sb.WriteString(",")
		}
		sb.WriteString("}")
	case array:
		sb.WriteString("[")
		for _, f := range x {
			if !canonKey(sb, f) {
				return false
			}
			sb.WriteString(",")
		}
		sb.WriteString("]")
	case iface:
		if x.t == nil {
			sb.WriteString("nil")
			return true
		}
		if !types.Comparable(x.t) {
			panic(goRuntimeError("runtime error: hash of unhashable type " + x.t.String()))
		}
		fmt.Fprintf(sb, "i%d:", typeID(x.t))
		return canonKey(sb, x.v)
	case rtype:
		fmt.Fprintf(sb, "r%d", typeID(x.t))
	case *omap:
		fmt.Fprintf(sb, "m%p", x)
	default:
		if u, k, ok := intInfo(v); ok {
			_ = k
			fmt.Fprintf(sb, "n%d", u)
			return true
		}
		panic(goRuntimeError(fmt.Sprintf("runtime error: hash of unhashable type %T", v)))
	}
	return true
}

func ckey(v value) (string, bool) {
	var sb strings.Builder
	ok := canonKey(&sb, v)
	return sb.String(), ok
}

// find locates the live entry for key k, forking on undecided equalities.
func (m *omap) find(k value) *mentry {
	if m == nil {
		return nil
	}
	ck, conc := ckey(k)
	if conc && m.nsym == 0 {
		return m.idx[ck]
	}
	for _, e := range m.entries {
		if e.deleted {
			continue
		}
		if conc && e.hasCK {
			if e.ck == ck {
				return e
			}
			continue
		}
		c := eqTerm(m.kt, k, e.k)
		if c == FalseT {
			continue
		}
		if c == TrueT || ex.Branch(c) {
			return e
		}
	}
	return nil
}

func (m *omap) lookup(k value) (value, bool) {
	if e := m.find(k); e != nil {
		return e.v, true
	}
	return nil, false
}

func (m *omap) insert(k, v value) {
	if m == nil {
		panic(goRuntimeError("assignment to entry in nil map"))
	}
	if e := m.find(k); e != nil {
		e.v = v
		return
	}
	e := &mentry{k: k, v: v}
	if ck, ok := ckey(k); ok {
		e.ck, e.hasCK = ck, true
		m.idx[ck] = e
	} else {
		m.nsym++
	}
	m.entries = append(m.entries, e)
	m.n++
}

func (m *omap) delete(k value) {
	if m == nil {
		return
	}
	if e := m.find(k); e != nil {
		e.deleted = true
		if e.hasCK {
			delete(m.idx, e.ck)
		} else {
			m.nsym--
		}
		m.n--
	}
}

func (m *omap) clear() {
	if m == nil {
		return
	}
	for _, e := range m.entries {
		e.deleted = true
	}
	m.entries = nil
	m.idx = map[string]*mentry{}
	m.n, m.nsym = 0, 0
}

func (m *omap) len() int {
	if m == nil {
		return 0
	}
	return m.n
}
